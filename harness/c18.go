// C18: every API request git-lfs emits conforms to the published LFS API.
//
//	(1) in-process encoders: the real tq.Batch / locking.Client functions are called with generated
//	    inputs against a capturing server; the Lean model re-encodes the request from the SAME inputs
//	    and the canonical forms are compared; the repo's own schema files judge every body
//	    (gojsonschema) and so does the model's validator (the two must agree);
//	(2) scenario flows with the real binary (push, fetch, pull, lock, unlock, locks, locks --verify,
//	    pre-push lock verification) against the fake server: every captured request is validated,
//	    headers checked, actions must be used exactly as offered, batch objects ⊆ what was asked;
//	(3) corrupted responses: unsupported hash_algo must not be acted upon; single-field corruptions
//	    must neither crash the client nor make it emit a non-conforming request.
package main

import (
	"bytes"
	"encoding/json"
	"fmt"
	"io"
	"net/http"
	"net/http/httptest"
	"net/url"
	"os"
	"path/filepath"
	"sort"
	"strings"
	"sync"
	"unicode/utf8"

	"github.com/git-lfs/git-lfs/v3/config"
	"github.com/git-lfs/git-lfs/v3/git"
	"github.com/git-lfs/git-lfs/v3/lfsapi"
	"github.com/git-lfs/git-lfs/v3/locking"
	"github.com/git-lfs/git-lfs/v3/tq"
	"github.com/xeipuuv/gojsonschema"
)

const lfsMedia = "application/vnd.git-lfs+json"

// canonJSON renders a JSON text in the model's canonical form (Api.render): member order kept,
// strings and keys hex-encoded, integers in decimal; `sortArrays` names members whose string arrays
// are order-free (Go map iteration) and are sorted first.
func canonJSON(b []byte, sortArrays ...string) (string, error) {
	dec := json.NewDecoder(bytes.NewReader(b))
	dec.UseNumber()
	var render func(key string) (string, error)
	render = func(key string) (string, error) {
		t, err := dec.Token()
		if err != nil {
			return "", err
		}
		switch v := t.(type) {
		case json.Delim:
			switch v {
			case '{':
				var parts []string
				for dec.More() {
					kt, err := dec.Token()
					if err != nil {
						return "", err
					}
					k, _ := kt.(string)
					val, err := render(k)
					if err != nil {
						return "", err
					}
					parts = append(parts, hexOrEmpty(k)+":"+val)
				}
				dec.Token()
				return "{" + strings.Join(parts, ",") + "}", nil
			case '[':
				var parts []string
				for dec.More() {
					val, err := render("")
					if err != nil {
						return "", err
					}
					parts = append(parts, val)
				}
				dec.Token()
				for _, sa := range sortArrays {
					if sa == key {
						sort.Strings(parts)
					}
				}
				return "[" + strings.Join(parts, ",") + "]", nil
			}
			return "", fmt.Errorf("unexpected delimiter %v", v)
		case string:
			return "s" + hexOrEmpty(v), nil
		case json.Number:
			s := v.String()
			if strings.ContainsAny(s, ".eE") {
				return "", fmt.Errorf("non-integer number %s", s)
			}
			return s, nil
		case bool:
			if v {
				return "true", nil
			}
			return "false", nil
		case nil:
			return "null", nil
		}
		return "", fmt.Errorf("unexpected token %v", t)
	}
	out, err := render("")
	if err != nil {
		return "", err
	}
	if dec.More() {
		return "", fmt.Errorf("trailing data")
	}
	return out, nil
}

func hexOrEmpty(s string) string {
	if s == "" {
		return ""
	}
	return hx([]byte(s))
}

var c18Schemas = map[string]*gojsonschema.Schema{}
var c18SchemaMu sync.Mutex

// repoSchema loads a schema file of /repo's documentation (docs/api/schemas)
func repoSchema(name string) *gojsonschema.Schema {
	c18SchemaMu.Lock()
	defer c18SchemaMu.Unlock()
	if s, ok := c18Schemas[name]; ok {
		return s
	}
	root := os.Getenv("VERIF_REPO")
	if root == "" {
		root = "/repo"
	}
	b, err := os.ReadFile(filepath.Join(root, "docs", "api", "schemas", name))
	if err != nil {
		c18Schemas[name] = nil
		return nil
	}
	s, err := gojsonschema.NewSchema(gojsonschema.NewStringLoader(string(b)))
	if err != nil {
		s = nil
	}
	c18Schemas[name] = s
	return s
}

// hand transcriptions of the two request bodies the documentation gives in prose only (the same
// text as ApiReq.lockVerifyRequestDoc / objectVerifyRequestDoc in the Lean model)
const lockVerifyDocSchema = `{"type":"object","properties":{"cursor":{"type":"string"},"limit":{"type":"number","minimum":0},"ref":{"type":"object","properties":{"name":{"type":"string"}},"required":["name"]}}}`
const objectVerifyDocSchema = `{"type":"object","properties":{"oid":{"type":"string"},"size":{"type":"number","minimum":0}},"required":["oid","size"],"additionalProperties":false}`

func docSchema(name, text string) *gojsonschema.Schema {
	c18SchemaMu.Lock()
	defer c18SchemaMu.Unlock()
	if s, ok := c18Schemas[name]; ok {
		return s
	}
	s, _ := gojsonschema.NewSchema(gojsonschema.NewStringLoader(text))
	c18Schemas[name] = s
	return s
}

func schemaFor(kind string) *gojsonschema.Schema {
	switch kind {
	case "batch":
		return repoSchema("http-batch-request-schema.json")
	case "lock-create":
		return repoSchema("http-lock-create-request-schema.json")
	case "lock-delete":
		return repoSchema("http-lock-delete-request-schema.json")
	case "lock-verify":
		return docSchema("lock-verify", lockVerifyDocSchema)
	case "verify":
		return docSchema("verify", objectVerifyDocSchema)
	}
	return nil
}

// c18Judge: the property on ONE captured request; every finding carries the request as its case
type c18Judge struct {
	c                    *Ctx
	mu                   sync.Mutex
	vlines               []string // model validator lines
	vimpl                []string // gojsonschema's verdicts
	vcase                []string
	alines, aimpl, acase []string // adapter choice: model line, observed protocol, case
}

func (j *c18Judge) fail(what, cas, impl string) {
	j.c.R.Add(Finding{Kind: "oracle", What: what, Case: clip(cas, 1500), Impl: clip(impl, 600)})
}

// body: schema validation by the repo's schema (oracle) + queued for the model's validator (tie)
func (j *c18Judge) body(kind string, body string, cas string) {
	sch := schemaFor(kind)
	if sch == nil {
		j.c.R.Add(Finding{Kind: "diff", What: "schema for " + kind + " requests could not be loaded from docs/api/schemas", Broken: "corr.C18.schema"})
		return
	}
	res, err := sch.Validate(gojsonschema.NewStringLoader(body))
	verdict := "valid"
	if err != nil {
		verdict = "invalid"
		j.fail("a "+kind+" request body is not JSON", cas, err.Error()+" | "+body)
	} else if !res.Valid() {
		verdict = "invalid"
		var es []string
		for _, e := range res.Errors() {
			es = append(es, e.String())
		}
		j.fail("a "+kind+" request does not validate against the published schema", cas, strings.Join(es, "; ")+" | "+body)
	}
	j.c.R.Count("validated." + kind)
	if cj, err := canonJSON([]byte(body)); err == nil {
		j.mu.Lock()
		j.vlines = append(j.vlines, "C18 validate "+kind+" "+cj)
		j.vimpl = append(j.vimpl, verdict)
		j.vcase = append(j.vcase, cas+" | "+body)
		j.mu.Unlock()
	}
}

// adapter: the answers this process has had to its upload batches, up to the one that offered this
// object, go to the model (ApiReq.adapterAfter); the protocol the request speaks is the observation
func (j *c18Judge) adapter(rq capturedReq, spoke, cas string) {
	hist, ok := rq.Header["~answers"]
	if !ok {
		return
	}
	j.mu.Lock()
	j.alines = append(j.alines, "C18 adapter "+rq.Header["~avail"]+" "+hist)
	j.aimpl = append(j.aimpl, spoke)
	j.acase = append(j.acase, cas+" | "+rq.Method+" "+rq.Path)
	j.mu.Unlock()
}

func (j *c18Judge) apiHeaders(rq capturedReq, cas string) {
	if a := rq.Header["Accept"]; a != lfsMedia {
		j.fail("an API request does not carry `Accept: "+lfsMedia+"`", cas, rq.Method+" "+rq.Path+" Accept="+a)
	}
	if rq.Method != "GET" {
		ct := rq.Header["Content-Type"]
		if ct != lfsMedia && !strings.HasPrefix(ct, lfsMedia+";") {
			j.fail("an API request with a body does not carry the LFS media type as Content-Type", cas, rq.Method+" "+rq.Path+" Content-Type="+ct)
		}
	}
}

// flush: ask the model's validator about every body and compare with gojsonschema
func (j *c18Judge) flush() {
	if len(j.vlines) == 0 && len(j.alines) == 0 {
		return
	}
	ans, err := j.c.Or.Ask(j.vlines)
	if err != nil {
		j.c.R.Add(Finding{Kind: "diff", What: "oracle process failed: " + err.Error(), Broken: "corr.C18.validator"})
		return
	}
	if len(j.alines) > 0 {
		if a2, err := j.c.Or.Ask(j.alines); err != nil {
			j.c.R.Add(Finding{Kind: "diff", What: "oracle process failed: " + err.Error(), Broken: "corr.C18.adapter"})
		} else {
			for i := range j.alines {
				if a2[i] != j.aimpl[i] {
					j.c.R.Add(Finding{Kind: "diff", What: "which transfer adapter carries an upload: model and implementation disagree", Case: clip(j.acase[i], 1500), Impl: j.aimpl[i], Model: a2[i] + " <= " + j.alines[i], Broken: "corr.C18.adapter"})
				}
			}
		}
	}
	for i := range j.vlines {
		if ans[i] != j.vimpl[i] {
			j.c.R.Add(Finding{Kind: "diff", What: "schema validation: the model's validator and gojsonschema (repo's schema file) disagree", Case: clip(j.vcase[i], 1500), Impl: j.vimpl[i], Model: ans[i], Broken: "corr.C18.validator"})
		}
	}
}

// ---------------------------------------------------------------- (1) in-process encoders

type capSrv struct {
	mu    sync.Mutex
	srv   *httptest.Server
	last  []capturedReq
	reply func(kind string) (int, string)
}

func newCapSrv() *capSrv {
	s := &capSrv{}
	s.srv = httptest.NewServer(http.HandlerFunc(func(w http.ResponseWriter, r *http.Request) {
		body, _ := io.ReadAll(r.Body)
		kind := "other"
		switch {
		case strings.HasSuffix(r.URL.Path, "/objects/batch"):
			kind = "batch"
		case strings.HasSuffix(r.URL.Path, "/locks/verify"):
			kind = "lock-verify"
		case strings.HasSuffix(r.URL.Path, "/unlock"):
			kind = "lock-delete"
		case strings.HasSuffix(r.URL.Path, "/locks") && r.Method == "POST":
			kind = "lock-create"
		case strings.HasSuffix(r.URL.Path, "/locks"):
			kind = "lock-list"
		}
		h := map[string]string{}
		for _, k := range []string{"Accept", "Content-Type"} {
			h[k] = r.Header.Get(k)
		}
		s.mu.Lock()
		h["~escaped-path"] = r.URL.EscapedPath()
		s.last = append(s.last, capturedReq{Method: r.Method, Path: r.URL.Path, Query: r.URL.RawQuery, Header: h, Body: string(body), Kind: kind})
		reply := s.reply
		s.mu.Unlock()
		code, out := 200, `{"objects":[]}`
		switch kind {
		case "lock-create":
			code, out = 201, `{"lock":{"id":"L1","path":"p","locked_at":"2020-01-01T00:00:00Z","owner":{"name":"alice"}}}`
		case "lock-delete":
			out = `{"lock":{"id":"L1","path":"p","locked_at":"2020-01-01T00:00:00Z","owner":{"name":"alice"}}}`
		case "lock-verify":
			out = `{"ours":[],"theirs":[]}`
		case "lock-list":
			out = `{"locks":[]}`
		}
		if reply != nil {
			if c2, o2 := reply(kind); c2 != 0 {
				code, out = c2, o2
			}
		}
		w.Header().Set("Content-Type", lfsMedia)
		w.WriteHeader(code)
		io.WriteString(w, out)
	}))
	return s
}

func (s *capSrv) take() []capturedReq {
	s.mu.Lock()
	defer s.mu.Unlock()
	l := s.last
	s.last = nil
	return l
}

var c18Strings = []string{"refs/heads/main", "refs/heads/feature/x", "refs/heads/a b", "refs/heads/q\"uote", "refs/heads/back\\slash", "refs/heads/ünï", "refs/tags/v1", "refs/heads/<tag>&amp", "main", "HEAD", ""}

func genC18String(r *Rng, pool []string) string {
	if r.Chance(70) {
		return Pick(r, pool)
	}
	n := 1 + r.Intn(12)
	var b []byte
	for i := 0; i < n; i++ {
		b = append(b, Pick(r, []byte("abz09/._-\"\\ <>&'\t\x01\x7f{}[]:,")))
	}
	s := string(b)
	if r.Chance(20) {
		s += "é☃"
	}
	return s
}

func c18Encoders(c *Ctx, j *c18Judge, r *Rng) {
	n := c.N(400, 8000)
	srv := newCapSrv()
	defer srv.srv.Close()
	var lines, impl, cases []string
	push := func(line, got, cas string) {
		lines = append(lines, line)
		impl = append(impl, got)
		cases = append(cases, cas)
	}
	lockDir := filepath.Join(c.Work, "c18-lockcache")
	os.MkdirAll(lockDir, 0o755)
	for i := 0; i < n; i++ {
		switch r.Intn(6) {
		case 0, 1, 2: // batch
			gitcfg := map[string][]string{"lfs.url": {srv.srv.URL + "/api"}}
			switch r.Intn(5) {
			case 0:
				gitcfg["lfs.tustransfers"] = []string{"true"}
			case 1:
				gitcfg["lfs.customtransfer.mine.path"] = []string{"/bin/true"}
			case 2:
				gitcfg["lfs.basictransfersonly"] = []string{"true"}
			}
			cfg := config.NewFrom(config.Values{Git: gitcfg})
			client, err := lfsapi.NewClient(cfg)
			if err != nil {
				continue
			}
			dir := tq.Upload
			if r.Bool() {
				dir = tq.Download
			}
			m := tq.NewManifest(cfg.Filesystem(), client, dir.String(), "origin")
			var objs []*tq.Transfer
			var objEnc []string
			k := r.Intn(5)
			okInputs := true
			for q := 0; q < k; q++ {
				oid := sha(r.Bytes(8))
				if r.Chance(10) {
					oid = genC18String(r, []string{"not-hex", "", "AB"})
				}
				size := int64(r.U64() >> uint(1+r.Intn(62)))
				if r.Chance(8) {
					size = 0
				}
				if r.Chance(4) {
					size = -size - 1
				}
				if oid == "" || size < 0 {
					okInputs = false // outside the property's premise (ids and sizes come from decoded pointers)
				}
				objs = append(objs, &tq.Transfer{Oid: oid, Size: size, Name: "name-must-not-leak", Path: "/path/must/not/leak", Missing: r.Bool()})
				objEnc = append(objEnc, hexOrDash(oid)+":"+fmt.Sprint(size))
			}
			var ref *git.Ref
			refName := ""
			if r.Chance(85) {
				refName = genC18String(r, c18Strings)
				ref = &git.Ref{Name: refName, Type: git.RefTypeOther}
			}
			names := m.GetAdapterNames(dir)
			sort.Strings(names)
			var ne []string
			for _, nm := range names {
				ne = append(ne, hexOrDash(nm))
			}
			// what batch.ToTransfers hands to Batch: only oid and size (and Missing)
			var asked []*tq.Transfer
			for _, o := range objs {
				asked = append(asked, &tq.Transfer{Oid: o.Oid, Size: o.Size, Missing: o.Missing})
			}
			tq.Batch(m, dir, "origin", ref, asked)
			reqs := srv.take()
			line := fmt.Sprintf("C18 batch %s %s %s %s", hexOrDash(dir.String()), joinOrDash(objEnc), joinOrDash(ne), hexOrDash(refName))
			got := "no-request"
			if len(reqs) > 0 {
				rq := reqs[len(reqs)-1]
				cj, err := canonJSON([]byte(rq.Body), "transfers")
				if err != nil {
					got = "unparseable: " + err.Error()
				} else {
					got = cj
				}
				j.apiHeaders(rq, line)
				if okInputs {
					j.body("batch", rq.Body, line)
				}
			}
			push(line, got, line)
			c.R.Eval(line, k > 0)
			c.R.Count("enc.batch")
		default: // locks
			refName := genC18String(r, c18Strings)
			cfg := config.NewFrom(config.Values{Git: map[string][]string{"lfs.url": {srv.srv.URL + "/api"}}})
			lfsclient, err := lfsapi.NewClient(cfg)
			if err != nil {
				continue
			}
			lc, err := locking.NewClient("origin", lfsclient, cfg)
			if err != nil {
				continue
			}
			lc.LocalWorkingDir = lockDir
			lc.LocalGitDir = lockDir
			if r.Chance(90) {
				lc.RemoteRef = &git.Ref{Name: refName, Type: git.RefTypeOther}
			} else {
				refName = ""
			}
			switch r.Intn(4) {
			case 0:
				path := genC18String(r, []string{"a.bin", "dir/b c.bin", "q\"uote.bin", "ünï.bin", "back\\slash", "<x>&y"})
				lc.LockFile(path)
				reqs := srv.take()
				line := fmt.Sprintf("C18 lock %s %s", hexOrDash(path), hexOrDash(refName))
				got := "no-request"
				if len(reqs) > 0 {
					rq := reqs[0]
					got, _ = canonJSON([]byte(rq.Body))
					j.apiHeaders(rq, line)
					j.body("lock-create", rq.Body, line)
				}
				push(line, got, line)
				c.R.Eval(line, true)
				c.R.Count("enc.lock")
			case 1:
				force := r.Bool()
				id := Pick(r, []string{"L1", "42", "id with space", "a/b", "a?b#c", "../../x", "ünï", "50%", "a%2Fb", "x;y,z", "$&+:=@", "q\"uote", "tab\there", "~-_.", "#", "?"})
				if r.Chance(25) {
					id = string(r.Bytes(1 + r.Intn(6)))
				}
				lc.UnlockFileById(id, force)
				reqs := srv.take()
				{
					// the URL: `locks/<id>/unlock` with the id as ONE path segment — model UrlEsc.unlockSuffix
					uline := "C18 unlockurl " + hx([]byte(id))
					ugot := "no-request"
					if len(reqs) > 0 {
						rq := reqs[0]
						u := strings.TrimPrefix(rq.Header["~escaped-path"], "/api/")
						if rq.Query != "" {
							u += "?" + rq.Query
						}
						ugot = hx([]byte(u))
						if rq.Kind != "lock-delete" || rq.Query != "" || rq.Path != "/api/locks/"+id+"/unlock" || strings.Count(rq.Header["~escaped-path"], "/") != 4 {
							j.fail("an unlock request does not go to the documented endpoint /locks/:id/unlock for the lock id asked", uline, fmt.Sprintf("id=%q -> %s %s?%s", id, rq.Method, rq.Header["~escaped-path"], rq.Query))
						}
					}
					if strings.ContainsAny(id, "\x00\r\n") || !utf8.ValidString(id) || strings.ContainsFunc(id, func(c rune) bool { return c < 0x20 || c == 0x7f }) {
						// net/http refuses control characters in a URL: no request at all is a correct outcome
						if ugot != "no-request" {
							push(uline, ugot, uline)
						}
					} else {
						push(uline, ugot, uline)
					}
					c.R.Count("enc.unlock-url")
				}
				f := "0"
				if force {
					f = "1"
				}
				line := fmt.Sprintf("C18 unlock %s %s", f, hexOrDash(refName))
				got := "no-request"
				if len(reqs) > 0 {
					rq := reqs[0]
					got, _ = canonJSON([]byte(rq.Body))
					j.apiHeaders(rq, line)
					j.body("lock-delete", rq.Body, line)
				}
				push(line, got, line)
				c.R.Eval(line, true)
				c.R.Count("enc.unlock")
			case 2:
				// verification with server-side pagination: every page request is compared
				limit := Pick(r, []int{0, 0, 1, 2, 5, 100})
				pages := 1 + r.Intn(3)
				served := 0
				srv.mu.Lock()
				srv.reply = func(kind string) (int, string) {
					if kind != "lock-verify" {
						return 0, ""
					}
					served++
					next := ""
					if served < pages {
						next = fmt.Sprintf(`,"next_cursor":"cur%d"`, served)
					}
					return 200, fmt.Sprintf(`{"ours":[{"id":"o%d","path":"p%d","locked_at":"2020-01-01T00:00:00Z","owner":{"name":"alice"}}],"theirs":[{"id":"t%d","path":"q%d","locked_at":"2020-01-01T00:00:00Z","owner":{"name":"bob"}}]%s}`, served, served, served, served, next)
				}
				srv.mu.Unlock()
				lc.SearchLocksVerifiable(limit, false)
				srv.mu.Lock()
				srv.reply = nil
				srv.mu.Unlock()
				reqs := srv.take()
				for pi, rq := range reqs {
					cur := ""
					if pi > 0 {
						cur = fmt.Sprintf("cur%d", pi)
					}
					line := fmt.Sprintf("C18 lockverify %s %s %d", hexOrDash(refName), hexOrDash(cur), limit)
					got, _ := canonJSON([]byte(rq.Body))
					j.apiHeaders(rq, line)
					j.body("lock-verify", rq.Body, line)
					push(line, got, fmt.Sprintf("%s (page %d of a %d-page answer)", line, pi+1, pages))
					c.R.Eval(line+fmt.Sprint(pi), true)
				}
				c.R.Count(fmt.Sprintf("enc.lockverify.pages=%d", len(reqs)))
			case 3:
				// lock list (GET, query parameters): documented parameters only, positive limit, cursor as handed out
				limit := Pick(r, []int{0, 0, 1, 3, 7})
				pages := 1 + r.Intn(3)
				served := 0
				srv.mu.Lock()
				srv.reply = func(kind string) (int, string) {
					if kind != "lock-list" {
						return 0, ""
					}
					served++
					next := ""
					if served < pages {
						next = fmt.Sprintf(`,"next_cursor":"cur%d"`, served)
					}
					return 200, fmt.Sprintf(`{"locks":[{"id":"o%d","path":"p%d","locked_at":"2020-01-01T00:00:00Z","owner":{"name":"alice"}}]%s}`, served, served, next)
				}
				srv.mu.Unlock()
				filter := map[string]string{}
				if r.Chance(40) {
					filter["path"] = genC18String(r, []string{"a.bin", "dir/b c.bin", "ünï&=?.bin"})
				}
				if r.Chance(20) {
					filter["id"] = "L7"
				}
				lc.SearchLocks(filter, limit, false, false)
				srv.mu.Lock()
				srv.reply = nil
				srv.mu.Unlock()
				reqs := srv.take()
				for pi, rq := range reqs {
					cas := fmt.Sprintf("C18 locklist filter=%v limit=%d ref=%q page=%d/%d query=%s", filter, limit, refName, pi+1, pages, rq.Query)
					c18CheckLockListQuery(j, rq, cas, filter, refName, pi)
					j.apiHeaders(rq, cas)
					c.R.Eval(cas, true)
				}
				c.R.Count(fmt.Sprintf("enc.locklist.pages=%d", len(reqs)))
			}
		}
	}
	ans, err := c.Or.Ask(lines)
	if err != nil {
		c.R.Add(Finding{Kind: "diff", What: "oracle process failed: " + err.Error(), Broken: "corr.C18.encoders"})
		return
	}
	for i := range lines {
		if ans[i] != impl[i] {
			c.R.Add(Finding{Kind: "diff", What: "request encoding: model and implementation disagree", Case: clip(cases[i], 1500), Impl: clip(impl[i], 700), Model: clip(ans[i], 700), Broken: "corr.C18.encoders"})
		}
	}
}

func c18CheckLockListQuery(j *c18Judge, rq capturedReq, cas string, filter map[string]string, refName string, page int) {
	q, err := parseQuery(rq.Query)
	if err != nil {
		j.fail("a lock-list request has an unparseable query string", cas, rq.Query)
		return
	}
	for k, vs := range q {
		switch k {
		case "path", "id", "cursor", "limit", "refspec":
		default:
			j.fail("a lock-list request carries a query parameter the API does not document", cas, k)
		}
		if len(vs) != 1 {
			j.fail("a lock-list request repeats a query parameter", cas, k)
		}
	}
	if l, ok := q["limit"]; ok {
		var n int
		if _, err := fmt.Sscan(l[0], &n); err != nil || n <= 0 || fmt.Sprint(n) != l[0] {
			j.fail("a lock-list request carries a limit that is not a positive integer", cas, l[0])
		}
	}
	for k, v := range filter {
		if got, ok := q[k]; !ok || got[0] != v {
			j.fail("a lock-list request does not carry the caller's filter value", cas, fmt.Sprintf("%s: want %q got %q", k, v, got))
		}
	}
	if refName != "" {
		if got, ok := q["refspec"]; !ok || got[0] != refName {
			j.fail("a lock-list request does not name the ref", cas, fmt.Sprint(got))
		}
	} else if _, ok := q["refspec"]; ok {
		j.fail("a lock-list request names an empty refspec", cas, rq.Query)
	}
	wantCur := ""
	if page > 0 {
		wantCur = fmt.Sprintf("cur%d", page)
	}
	gotCur := ""
	if cv, ok := q["cursor"]; ok {
		gotCur = cv[0]
	}
	if gotCur != wantCur {
		j.fail("a lock-list request does not continue at the cursor the server handed out", cas, fmt.Sprintf("want %q got %q", wantCur, gotCur))
	}
}

func hexOrDash(s string) string {
	if s == "" {
		return "-"
	}
	return hx([]byte(s))
}

func joinOrDash(l []string) string {
	if len(l) == 0 {
		return "-"
	}
	return strings.Join(l, ",")
}

// ---------------------------------------------------------------- (2) scenario flows

// c18JudgeServer validates everything the fake server captured since `from`.
// asked = oid -> size of every object the commands could legitimately ask about.
func c18JudgeServer(j *c18Judge, srv *lfsServer, from int, asked map[string]int64, cas string) {
	srv.mu.Lock()
	reqs := append([]capturedReq(nil), srv.reqs[from:]...)
	srv.mu.Unlock()
	// actions offered so far, by oid
	for _, rq := range reqs {
		switch rq.Kind {
		case "batch":
			j.apiHeaders(rq, cas)
			j.body("batch", rq.Body, cas)
			var b struct {
				Operation string `json:"operation"`
				Objects   []struct {
					Oid  string `json:"oid"`
					Size *int64 `json:"size"`
				} `json:"objects"`
				HashAlgo string `json:"hash_algo"`
			}
			if json.Unmarshal([]byte(rq.Body), &b) == nil {
				if b.Operation != "upload" && b.Operation != "download" {
					j.fail("a batch request names an operation the API does not define", cas, b.Operation)
				}
				if b.HashAlgo != "" && b.HashAlgo != "sha256" {
					j.fail("a batch request names a hash algorithm other than sha256", cas, b.HashAlgo)
				}
				seen := map[string]bool{}
				for _, o := range b.Objects {
					sz, ok := asked[o.Oid]
					if !ok {
						j.fail("a batch request names an object the caller did not ask about", cas, o.Oid)
					} else if o.Size == nil || *o.Size != sz {
						j.fail("a batch request gives a size other than the pointer's for an object", cas, fmt.Sprintf("%s: %v want %d", o.Oid, o.Size, sz))
					}
					if o.Size != nil && *o.Size < 0 {
						j.fail("a batch request carries a negative size", cas, rq.Body)
					}
					if seen[o.Oid] {
						j.fail("a batch request names the same object twice", cas, o.Oid)
					}
					seen[o.Oid] = true
				}
			}
		case "storage-tus":
			oid := strings.TrimPrefix(rq.Path, "/storage/")
			if rq.Header["~offered-as"] != "tus" {
				j.fail("a transfer request uses another method than the basic transfer API prescribes", cas, fmt.Sprintf("%s %s (Tus-Resumable=%q) although the batch response offering this upload named transfer=%q", rq.Method, rq.Path, rq.Header["~tus-resumable"], rq.Header["~offered-as"]))
			}
			if got, want := rq.Header["X-Verif-Action"], "upload-"+oid[:min(8, len(oid))]; got != want {
				j.fail("a transfer request does not carry the header the batch response's action supplied (action not used as offered)", cas, fmt.Sprintf("%s %s: X-Verif-Action=%q want %q", rq.Method, rq.Path, got, want))
			}
			if _, ok := asked[oid]; !ok {
				j.fail("a transfer request is for an object the caller did not ask about", cas, oid)
			}
			j.c.R.Count("action-use.storage-tus-" + strings.ToLower(rq.Method))
			j.adapter(rq, "tus", cas)
		case "storage-put", "storage-get":
			oid := strings.TrimPrefix(rq.Path, "/storage/")
			if rq.Kind == "storage-put" && rq.Header["~offered-as"] == "tus" {
				j.fail("an upload offered as a tus transfer was sent as a basic PUT", cas, rq.Path)
			}
			if rq.Kind == "storage-put" {
				j.adapter(rq, "basic", cas)
			}
			want := map[string]string{"storage-put": "upload-", "storage-get": "download-"}[rq.Kind] + oid[:min(8, len(oid))]
			if got := rq.Header["X-Verif-Action"]; got != want {
				j.fail("a transfer request does not carry the header the batch response's action supplied (action not used as offered)", cas, fmt.Sprintf("%s %s: X-Verif-Action=%q want %q", rq.Method, rq.Path, got, want))
			}
			wantM := map[string]string{"storage-put": "PUT", "storage-get": "GET"}[rq.Kind]
			if rq.Method != wantM {
				j.fail("a transfer request uses another method than the basic transfer API prescribes", cas, rq.Method+" "+rq.Path)
			}
			if _, ok := asked[oid]; !ok {
				j.fail("a transfer request is for an object the caller did not ask about", cas, oid)
			}
			if srv.offerExtra && len(oid) >= 8 {
				kind := map[string]string{"storage-put": "upload", "storage-get": "download"}[rq.Kind]
				for n, v := range srv.actHeader(kind, oid) {
					cn := http.CanonicalHeaderKey(n)
					if got := rq.Header[cn]; got != v {
						j.fail("a transfer request does not carry an offered action header exactly once with the offered value", cas, fmt.Sprintf("%s %s: %s=%q, offered %q (as %q)", rq.Method, rq.Path, cn, got, v, n))
					}
				}
				j.c.R.Count(fmt.Sprintf("action-use.offered-headers.style%d", srv.hdrStyle))
			}
			if rq.Kind == "storage-get" && rq.Header["Content-Type"] != "" {
				j.fail("a download request carries a Content-Type", cas, rq.Header["Content-Type"])
			}
			j.c.R.Count("action-use." + rq.Kind)
		case "verify":
			j.apiHeaders(rq, cas)
			j.body("verify", rq.Body, cas)
			var v struct {
				Oid  string `json:"oid"`
				Size int64  `json:"size"`
			}
			json.Unmarshal([]byte(rq.Body), &v)
			if got, want := rq.Header["X-Verif-Action"], "verify-"+v.Oid[:min(8, len(v.Oid))]; got != want {
				j.fail("the verify request does not carry the header of the offered verify action", cas, got+" want "+want)
			}
			if rq.Method != "POST" {
				j.fail("the verify request is not a POST", cas, rq.Method)
			}
			if srv.offerExtra && len(v.Oid) >= 8 {
				for n, val := range srv.actHeader("verify", v.Oid) {
					cn := http.CanonicalHeaderKey(n)
					if got := rq.Header[cn]; got != val {
						j.fail("the verify request does not carry an offered action header exactly once with the offered value", cas, fmt.Sprintf("%s=%q, offered %q (as %q)", cn, got, val, n))
					}
				}
			}
			if sz, ok := asked[v.Oid]; !ok || sz != v.Size {
				j.fail("the verify request names an object/size the caller did not upload", cas, rq.Body)
			}
			j.c.R.Count("action-use.verify")
		case "lock-create":
			j.apiHeaders(rq, cas)
			j.body("lock-create", rq.Body, cas)
		case "unknown":
			j.fail("a request goes to a URL that is not an endpoint of the LFS API", cas, rq.Method+" "+rq.Header["~escaped-path"]+"?"+rq.Query)
		case "lock-delete":
			j.apiHeaders(rq, cas)
			j.body("lock-delete", rq.Body, cas)
			if ep := rq.Header["~escaped-path"]; rq.Query != "" || strings.Count(strings.TrimPrefix(ep, "/locks/"), "/") != 1 || !strings.HasPrefix(ep, "/locks/") || strings.HasPrefix(ep, "/locks//") {
				j.fail("an unlock request does not go to the documented endpoint /locks/:id/unlock for the lock id asked", cas, rq.Method+" "+ep+"?"+rq.Query)
			}
		case "lock-verify":
			j.apiHeaders(rq, cas)
			j.body("lock-verify", rq.Body, cas)
			var v struct {
				Cursor string `json:"cursor"`
			}
			json.Unmarshal([]byte(rq.Body), &v)
			srv.mu.Lock()
			handed := srv.cursorsHanded[v.Cursor]
			srv.mu.Unlock()
			if v.Cursor != "" && !handed {
				j.fail("a lock-verify request continues at a cursor the server never handed out", cas, rq.Body)
			}
		case "lock-list":
			j.apiHeaders(rq, cas)
			q, err := parseQuery(rq.Query)
			if err != nil {
				j.fail("a lock-list request has an unparseable query string", cas, rq.Query)
				break
			}
			for k := range q {
				switch k {
				case "path", "id", "cursor", "limit", "refspec":
				default:
					j.fail("a lock-list request carries a query parameter the API does not document", cas, k)
				}
			}
			if l, ok := q["limit"]; ok {
				var n int
				if _, err := fmt.Sscan(l[0], &n); err != nil || n <= 0 {
					j.fail("a lock-list request carries a limit that is not a positive integer", cas, l[0])
				}
			}
			if cv, ok := q["cursor"]; ok {
				srv.mu.Lock()
				handed := srv.cursorsHanded[cv[0]]
				srv.mu.Unlock()
				if !handed {
					j.fail("a lock-list request continues at a cursor the server never handed out", cas, rq.Query)
				}
			}
			j.c.R.Count("validated.lock-list")
		}
	}
}

func parseQuery(q string) (map[string][]string, error) {
	v, err := url.ParseQuery(q)
	return map[string][]string(v), err
}

func c18Scenario(c *Ctx, j *c18Judge, idx int, r *Rng) {
	base := filepath.Join(c.Work, fmt.Sprintf("c18-%d", idx))
	defer os.RemoveAll(base)
	os.MkdirAll(base, 0o755)
	srv := newLfsServer()
	defer srv.srv.Close()
	srv.pageSize = Pick(r, []int{0, 1, 2})
	srv.hdrStyle = r.Intn(4)
	srv.offerExtra = r.Chance(50)
	if r.Chance(20) {
		srv.movedTo = "/moved"
		c.R.Count("scenario.front-end-redirects-post-and-put")
	}
	remote := filepath.Join(base, "remote.git")
	runIn(base, nil, "git", "init", "-q", "--bare", remote)
	w, err := newScenRepo(c, filepath.Join(base, "w"), srv)
	if err != nil {
		c.R.Add(Finding{Kind: "diff", What: "scenario setup: " + err.Error(), Broken: "corr.C18.scenario"})
		return
	}
	w.git("remote", "add", "origin", remote)
	w.git("config", "lfs.transfer.batchsize", fmt.Sprint(Pick(r, []int{1, 2, 100})))
	if r.Chance(35) {
		// a server that speaks tus for some batches of a push and leaves `transfer` out (= basic) in others
		w.git("config", "lfs.tustransfers", "true")
		if r.Chance(70) {
			w.git("config", "lfs.transfer.batchsize", "1") // every object of a push in a batch of its own: one queue, several answers
		}
		srv.transferPlan = []string{Pick(r, []string{"tus", "tus", "", "basic"})}
		for k := 0; k < 1+r.Intn(3); k++ {
			srv.transferPlan = append(srv.transferPlan, Pick(r, []string{"tus", "", "", "basic"}))
		}
	}
	w.git("config", "lfs."+srv.srv.URL+"/info/lfs.locksverify", "true")
	w.git("config", "lfs.locksverify", "true")
	branch := Pick(r, []string{"master", "feature/x", "q'uote", "ünï", "a&b", "with#hash"})
	var steps []string
	log := func(f string, a ...interface{}) { steps = append(steps, fmt.Sprintf(f, a...)) }
	if branch != "master" {
		w.git("checkout", "-q", "-b", branch)
	}
	log("branch %s pagesize %d transfers %q", branch, srv.pageSize, srv.transferPlan)
	w.write(".gitattributes", []byte("*.bin filter=lfs diff=lfs merge=lfs -text lockable\n"))
	asked := map[string]int64{}
	names := []string{"a.bin", "dir/b c.bin", "q\"uote.bin", "ünï.bin", "back\\slash.bin", "<x>&y.bin", "plain.bin"}
	var files []string
	for k := 0; k < 2+r.Intn(4); k++ {
		f := Pick(r, names)
		b := r.Bytes(Pick(r, []int{1, 30, 1500, 5000}))
		w.write(f, b)
		asked[sha(b)] = int64(len(b))
		files = append(files, f)
	}
	w.git("add", "-A")
	w.git("commit", "-qm", "c1")
	if srv.offerExtra && r.Chance(50) {
		// the storage refuses the first request for some objects although it carries the offered Authorization
		// (a token not valid yet, or no longer); the user has credentials for the host, but the action says how
		// the storage is to be addressed: with the offered header, every time
		srv.mu.Lock()
		srv.failOnce = map[string]int{}
		for oid := range asked {
			if r.Chance(50) {
				srv.failOnce[oid] = Pick(r, []int{401, 401, 403})
			}
		}
		srv.mu.Unlock()
		w.git("config", "credential.helper", "!f() { test \"$1\" = get && echo username=gituser && echo password=gitpass; }; f")
		w.git("config", "lfs.transfer.maxretries", "3")
		log("storage refuses the first request for %d objects; a credential helper answers", len(srv.failOnce))
		c.R.Count("storage-refuses-offered-token-once")
	}
	cas := func() string {
		return fmt.Sprintf("C18 scen seed=%d idx=%d steps=%s", c.Seed, idx, strings.Join(steps, " ; "))
	}
	from := 0
	judge := func() {
		c18JudgeServer(j, srv, from, asked, cas())
		srv.mu.Lock()
		from = len(srv.reqs)
		srv.mu.Unlock()
	}
	nops := 3 + r.Intn(6)
	locked := map[string]bool{}
	for op := 0; op < nops; op++ {
		srv.mu.Lock()
		srv.answerLog = nil // one git-lfs process per operation that uploads: its queue starts without an adapter
		srv.mu.Unlock()
		switch r.Intn(9) {
		case 0, 1:
			out, code := w.git("push", "origin", branch)
			log("git push origin %s -> %d", branch, code)
			_ = out
		case 2:
			f := Pick(r, files)
			srv.mu.Lock()
			srv.user = "alice"
			srv.mu.Unlock()
			_, code := w.runLfs("lock", f)
			if code == 0 {
				locked[f] = true
			}
			log("lock %q -> %d", f, code)
		case 3:
			f := Pick(r, files)
			args := []string{"unlock", f}
			if r.Chance(30) {
				args = append(args, "--force")
			}
			_, code := w.runLfs(args...)
			log("%s -> %d", strings.Join(args, " "), code)
		case 4:
			args := []string{"locks"}
			switch r.Intn(5) {
			case 0:
				args = append(args, "--path", Pick(r, files))
			case 1:
				args = append(args, "--limit", fmt.Sprint(1+r.Intn(3)))
			case 2:
				args = append(args, "--verify")
			case 3:
				args = append(args, "--verify", "--limit", fmt.Sprint(1+r.Intn(3)))
			}
			_, code := w.runLfs(args...)
			log("%s -> %d", strings.Join(args, " "), code)
		case 5: // somebody else holds locks too
			srv.mu.Lock()
			srv.nextLock++
			srv.locks = append(srv.locks, lfsLock{ID: fmt.Sprintf("B%d", srv.nextLock), Path: fmt.Sprintf("bob%d.bin", srv.nextLock), Owner: "bob"})
			srv.mu.Unlock()
			log("bob locks a file")
		case 6: // fetch into a fresh clone
			cl := filepath.Join(base, fmt.Sprintf("clone%d", op))
			runIn(base, w.env, "git", "clone", "-q", remote, cl)
			if _, err := os.Stat(cl); err == nil {
				runIn(cl, w.env, "git", "config", "lfs.url", srv.srv.URL)
				_, code := runIn(cl, w.env, c.Lfs, "fetch", "--all")
				log("clone + fetch --all -> %d", code)
				_, code = runIn(cl, w.env, c.Lfs, "pull")
				log("pull -> %d", code)
			}
		case 7: // new content
			f := Pick(r, names)
			b := r.Bytes(Pick(r, []int{10, 2000}))
			w.write(f, b)
			asked[sha(b)] = int64(len(b))
			files = append(files, f)
			w.git("add", "-A")
			w.git("commit", "-qm", fmt.Sprintf("c%d", op))
			log("commit %q", f)
		case 8:
			_, code := w.runLfs("push", "origin", branch)
			log("git lfs push origin %s -> %d", branch, code)
		}
		judge()
	}
	srv.mu.Lock()
	nreq := len(srv.reqs)
	srv.mu.Unlock()
	c.R.Eval(cas(), nreq > 0)
	if idx%15 == 0 {
		c.R.Sample(map[string]interface{}{"steps": steps, "requests_captured": nreq})
	}
}

// ---------------------------------------------------------------- (3) corrupted responses

func c18Corruption(c *Ctx, j *c18Judge, idx int, r *Rng) {
	base := filepath.Join(c.Work, fmt.Sprintf("c18c-%d", idx))
	defer os.RemoveAll(base)
	os.MkdirAll(base, 0o755)
	srv := newLfsServer()
	defer srv.srv.Close()
	remote := filepath.Join(base, "remote.git")
	runIn(base, nil, "git", "init", "-q", "--bare", remote)
	w, err := newScenRepo(c, filepath.Join(base, "w"), srv)
	if err != nil {
		return
	}
	w.git("remote", "add", "origin", remote)
	w.write(".gitattributes", []byte("*.bin filter=lfs -text lockable\n"))
	asked := map[string]int64{}
	for k := 0; k < 2; k++ {
		b := r.Bytes(100 + k)
		w.write(fmt.Sprintf("f%d.bin", k), b)
		asked[sha(b)] = int64(len(b))
	}
	w.git("add", "-A")
	w.git("commit", "-qm", "c1")
	mode := r.Intn(3)
	if mode == 0 {
		// unsupported / odd hash algorithms
		algo := Pick(r, []string{"sha512", "md5", "SHA256", "sha256 ", "sha-256", "sha256", ""})
		// the algorithm may also appear only in a LATER batch response of the same command (second batch
		// of a transfer split by lfs.transfer.batchsize): every response is to be judged on its own
		from := Pick(r, []int{0, 0, 1})
		if from == 1 {
			w.git("config", "lfs.transfer.batchsize", "1")
			w.git("config", "lfs.concurrenttransfers", "1")
		}
		srv.mu.Lock()
		srv.hashAlgo = algo
		srv.hashAlgoFrom = from
		srv.mu.Unlock()
		op := Pick(r, []string{"push", "fetch"})
		if op == "fetch" {
			// objects must be on the server and absent locally
			for oid := range asked {
				b, _ := os.ReadFile(w.objectPath(oid))
				srv.mu.Lock()
				srv.objs[oid] = b
				srv.mu.Unlock()
				os.Remove(w.objectPath(oid))
			}
		}
		var out string
		var code int
		if op == "push" {
			out, code = w.git("push", "origin", "master")
		} else {
			out, code = w.runLfs("fetch", "--all")
		}
		cas := fmt.Sprintf("C18 hashalgo seed=%d idx=%d algo=%q op=%s from-batch=%d", c.Seed, idx, algo, op, from)
		ans, err := c.Or.Ask([]string{"C18 hashalgo " + hexOrDash(algo)})
		srv.mu.Lock()
		// transfer requests that act upon a response naming the algorithm: requests for an object made
		// after such a response offered it (objects answered by earlier, clean responses do not count)
		transfers := 0
		for i, rq := range srv.reqs {
			if rq.Kind == "storage-put" || rq.Kind == "storage-get" || rq.Kind == "verify" {
				oid := strings.TrimPrefix(rq.Path, "/storage/")
				if rq.Kind == "verify" {
					var v struct {
						Oid string `json:"oid"`
					}
					json.Unmarshal([]byte(rq.Body), &v)
					oid = v.Oid
				}
				if at, ok := srv.taintedAt[oid]; (ok && i >= at) || algo == "" {
					transfers++
				}
			}
		}
		if from > 0 {
			c.R.Count(fmt.Sprintf("corrupt.hashalgo.later-batch.answers=%d", srv.batchAnswers))
		}
		srv.mu.Unlock()
		supported := algo == "" || algo == "sha256"
		if err == nil && (ans[0] == "accept") != supported {
			c.R.Add(Finding{Kind: "diff", What: "hash_algo acceptance: model differs from the specification's reading", Case: cas, Model: ans[0], Broken: "corr.C18.hashalgo"})
		}
		if !supported {
			if transfers > 0 {
				j.fail("a batch response naming an unsupported hash algorithm was acted upon (transfer requests followed)", cas, fmt.Sprintf("%d transfer requests; exit %d; %s", transfers, code, clip(out, 200)))
			}
			if code == 0 {
				j.fail("a batch response naming an unsupported hash algorithm was not rejected (the command succeeded)", cas, clip(out, 300))
			}
		} else if transfers == 0 || code != 0 {
			c.R.Add(Finding{Kind: "diff", What: "a batch response with a supported hash_algo did not lead to transfers", Case: cas, Impl: clip(out, 300), Broken: "corr.C18.hashalgo"})
		}
		if err == nil && ans[0] == "accept" && transfers == 0 || err == nil && ans[0] == "reject" && transfers > 0 {
			c.R.Add(Finding{Kind: "diff", What: "hash_algo acceptance: model and implementation disagree", Case: cas, Model: ans[0], Impl: fmt.Sprintf("%d transfers", transfers), Broken: "corr.C18.hashalgo"})
		}
		c18JudgeServer(j, srv, 0, asked, cas)
		c.R.Eval(cas, !supported)
		c.R.Count("corrupt.hashalgo." + fmt.Sprint(supported))
		return
	}
	// single-field corruptions of otherwise valid responses
	fields := []string{"objects=null", "objects[0]=null", "objects[0].actions=null", "objects[0].actions.X=null", "objects[0].oid=other", "objects[0].oid=number", "objects[0].size=-1", "objects[0].size=string", "objects[0].size=huge",
		"transfer=unknown", "transfer=number", "objects[0].actions.X.href=empty", "objects[0].actions.X.href=number", "objects[0].actions.X.header=string", "objects[0].actions.X.expires_in=-1", "objects[0].error=string", "objects[0].error.code=string",
		"lock=null", "lock.id=number", "locks[0].id=a?b#c", "locks[0].id=../../x", "locks[0].id=a b/c", "locks[0].id=a?b#c", "locks[0].id=", "lock.id=x/../y?z", "lock.owner=null", "locks=null", "locks[0]=null", "ours=null", "ours[0]=null", "theirs[0].owner=null", "next_cursor=number"}
	// every kind of corruption in turn (the quick tier runs one full round), the starting point depends on the seed
	field := fields[(idx/3+int(c.Seed%1000))%len(fields)]
	srv.mu.Lock()
	srv.mutate = func(kind string, m map[string]interface{}) { c18Mutate(field, m) }
	srv.mu.Unlock()
	var outs []string
	crashed := ""
	run := func(name string, f func() (string, int)) {
		out, code := f()
		outs = append(outs, fmt.Sprintf("%s->%d", name, code))
		if strings.Contains(out, "panic:") || strings.Contains(out, "runtime error") || strings.Contains(out, "goroutine ") || code == 2 && strings.Contains(out, "SIGSEGV") {
			crashed = name + ": " + clip(out, 500)
		}
	}
	if strings.HasPrefix(field, "lock") || strings.HasPrefix(field, "ours") || strings.HasPrefix(field, "theirs") || strings.HasPrefix(field, "next_cursor") {
		run("lock", func() (string, int) { return w.runLfs("lock", "f0.bin") })
		run("locks", func() (string, int) { return w.runLfs("locks") })
		run("locks --verify", func() (string, int) { return w.runLfs("locks", "--verify") })
		run("unlock", func() (string, int) { return w.runLfs("unlock", "f0.bin") })
		w.git("config", "lfs.locksverify", "true")
		run("push", func() (string, int) { return w.git("push", "origin", "master") })
	} else {
		run("push", func() (string, int) { return w.git("push", "origin", "master") })
		for oid := range asked {
			b, _ := os.ReadFile(w.objectPath(oid))
			srv.mu.Lock()
			if _, ok := srv.objs[oid]; !ok && b != nil {
				srv.objs[oid] = b
			}
			srv.mu.Unlock()
			os.Remove(w.objectPath(oid))
		}
		run("fetch", func() (string, int) { return w.runLfs("fetch", "--all") })
		run("ls-files", func() (string, int) { return w.runLfs("ls-files", "--size") })
	}
	cas := fmt.Sprintf("C18 corrupt seed=%d idx=%d field=%s (%s)", c.Seed, idx, field, strings.Join(outs, ", "))
	if crashed != "" {
		j.fail("a corrupted API response crashed the client (panic)", cas, crashed)
	}
	c18JudgeServer(j, srv, 0, asked, cas)
	c.R.Eval(cas, true)
	c.R.Count("corrupt.field")
}

func c18Mutate(field string, m map[string]interface{}) {
	first := func(key string) map[string]interface{} {
		if l, ok := m[key].([]interface{}); ok && len(l) > 0 {
			if o, ok := l[0].(map[string]interface{}); ok {
				return o
			}
		}
		return nil
	}
	firstAction := func() (map[string]interface{}, string) {
		o := first("objects")
		if o == nil {
			return nil, ""
		}
		if as, ok := o["actions"].(map[string]interface{}); ok {
			var ks []string
			for k := range as {
				ks = append(ks, k)
			}
			sort.Strings(ks)
			if len(ks) > 0 {
				return as, ks[0]
			}
		}
		return nil, ""
	}
	switch field {
	case "objects=null":
		if _, ok := m["objects"]; ok {
			m["objects"] = nil
		}
	case "objects[0]=null":
		if l, ok := m["objects"].([]interface{}); ok && len(l) > 0 {
			l[0] = nil
		}
	case "objects[0].actions=null":
		if o := first("objects"); o != nil {
			o["actions"] = nil
		}
	case "objects[0].actions.X=null":
		if as, k := firstAction(); as != nil {
			as[k] = nil
		}
	case "objects[0].oid=other":
		if o := first("objects"); o != nil {
			o["oid"] = strings.Repeat("ab", 32)
		}
	case "objects[0].oid=number":
		if o := first("objects"); o != nil {
			o["oid"] = 7
		}
	case "objects[0].size=-1":
		if o := first("objects"); o != nil {
			o["size"] = -1
		}
	case "objects[0].size=string":
		if o := first("objects"); o != nil {
			o["size"] = "12"
		}
	case "objects[0].size=huge":
		if o := first("objects"); o != nil {
			o["size"] = json.Number("9223372036854775807")
		}
	case "transfer=unknown":
		if _, ok := m["transfer"]; ok {
			m["transfer"] = "quantum"
		}
	case "transfer=number":
		if _, ok := m["transfer"]; ok {
			m["transfer"] = 3
		}
	case "objects[0].actions.X.href=empty", "objects[0].actions.X.href=number", "objects[0].actions.X.header=string", "objects[0].actions.X.expires_in=-1":
		if as, k := firstAction(); as != nil {
			if a, ok := as[k].(map[string]interface{}); ok {
				switch field {
				case "objects[0].actions.X.href=empty":
					a["href"] = ""
				case "objects[0].actions.X.href=number":
					a["href"] = 5
				case "objects[0].actions.X.header=string":
					a["header"] = "x"
				default:
					a["expires_in"] = -1
				}
			}
		}
	case "objects[0].error=string":
		if o := first("objects"); o != nil {
			o["error"] = "boom"
		}
	case "objects[0].error.code=string":
		if o := first("objects"); o != nil {
			o["error"] = map[string]interface{}{"code": "404", "message": "x"}
		}
	case "lock=null":
		if _, ok := m["lock"]; ok {
			m["lock"] = nil
		}
	case "lock.id=number":
		if l, ok := m["lock"].(map[string]interface{}); ok {
			l["id"] = 12
		}
	case "locks[0].id=a?b#c", "locks[0].id=../../x", "locks[0].id=a b/c", "locks[0].id=":
		// a well-typed id with characters that mean something in a URL: the unlock request that uses it
		if o := first("locks"); o != nil {
			o["id"] = strings.TrimPrefix(field, "locks[0].id=")
		}
		if o := first("ours"); o != nil {
			o["id"] = strings.TrimPrefix(field, "locks[0].id=")
		}
	case "lock.id=x/../y?z":
		if l, ok := m["lock"].(map[string]interface{}); ok {
			l["id"] = "x/../y?z"
		}
	case "lock.owner=null":
		if l, ok := m["lock"].(map[string]interface{}); ok {
			l["owner"] = nil
		}
	case "locks=null":
		if _, ok := m["locks"]; ok {
			m["locks"] = nil
		}
	case "locks[0]=null":
		if l, ok := m["locks"].([]interface{}); ok && len(l) > 0 {
			l[0] = nil
		}
	case "ours=null":
		if _, ok := m["ours"]; ok {
			m["ours"] = nil
		}
	case "ours[0]=null":
		if l, ok := m["ours"].([]interface{}); ok && len(l) > 0 {
			l[0] = nil
		}
	case "theirs[0].owner=null":
		if o := first("theirs"); o != nil {
			o["owner"] = nil
		}
	case "next_cursor=number":
		if _, ok := m["locks"]; ok {
			m["next_cursor"] = 5
		}
		if _, ok := m["ours"]; ok {
			m["next_cursor"] = 5
		}
	}
}

func c18(c *Ctx) {
	r := NewRng(c.Seed ^ 0xC18)
	c.R.Rule = "cases = (1) generated inputs (object lists incl. odd ids and sizes, adapter configurations, ref names and paths needing JSON escaping, limits, multi-page cursors) through the real tq.Batch / locking client in process, the captured body compared with the Lean model's encoding of the same inputs; (2) scenario flows with the real binary (push via pre-push hook incl. lock verification, git lfs push, clone+fetch+pull, lock/unlock/locks with filters, limits, --verify, paginating server) — every captured request validated against the repo's own docs/api/schemas by gojsonschema AND by the model's validator, headers, action use (method, URL, supplied header), objects ⊆ asked; (3) unsupported hash_algo values and single-field corruptions of batch/lock responses; non-trivial = case that produced >= 1 request / corrupt response; distinct = different encoded case"
	j := &c18Judge{c: c}
	c18Encoders(c, j, r.Fork())
	n := c.N(102, 900)
	var wg sync.WaitGroup
	sem := make(chan struct{}, 10)
	for i := 0; i < n; i++ {
		rs := r.Fork()
		wg.Add(1)
		sem <- struct{}{}
		go func(i int, rs *Rng) {
			defer wg.Done()
			defer func() { <-sem }()
			defer func() {
				if x := recover(); x != nil {
					c.R.Add(Finding{Kind: "diff", What: fmt.Sprintf("scenario harness problem: %v", x), Broken: "corr.C18.scenario"})
				}
			}()
			if i%3 == 2 {
				c18Corruption(c, j, i, rs)
			} else {
				c18Scenario(c, j, i, rs)
			}
		}(i, rs)
	}
	wg.Wait()
	j.flush()
}

func init() { campaigns["C18"] = c18 }
