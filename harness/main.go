// lfsverif: correspondence + property-oracle campaigns, one sub-command per property.
// usage: lfsverif <Cxx> -tier quick|thorough -seed N -oracle <lean oracle exe> -out result.json
//        [-lfs <git-lfs binary>] [-corpus dir] [-replay file] [-work dir]
package main

import (
	"flag"
	"fmt"
	"os"
)

type Ctx struct {
	Tier    string
	Seed    uint64
	Or      *Oracle
	Lfs     string // git-lfs binary built from /repo (-tags verif)
	Corpus  string
	Replay  string
	Work    string
	Search  bool // widened search after a broken obligation
	R       *Result
}

func (c *Ctx) N(quick, thorough int) int {
	n := quick
	if c.Tier == "thorough" {
		n = thorough
	}
	if c.Search && c.Tier != "thorough" {
		n *= 4
	}
	return n
}

var campaigns = map[string]func(*Ctx){}

func main() {
	if len(os.Args) < 2 {
		fmt.Fprintln(os.Stderr, "usage: lfsverif <Cxx> flags")
		os.Exit(2)
	}
	prop := os.Args[1]
	if prop == "custom-agent" {
		agentMain()
		return
	}
	if prop == "ssh-server" {
		sshServerMain()
		return
	}
	if prop == "tqreal" {
		tqRealChildMain(os.Args[2], os.Args[3])
		return
	}
	if prop == "tqchild" {
		tqChildMain(os.Args[2])
		return
	}
	fs := flag.NewFlagSet(prop, flag.ExitOnError)
	tier := fs.String("tier", "quick", "")
	seed := fs.Uint64("seed", 1, "")
	or := fs.String("oracle", "", "")
	out := fs.String("out", "", "")
	lfs := fs.String("lfs", "", "")
	corpus := fs.String("corpus", "", "")
	replay := fs.String("replay", "", "")
	work := fs.String("work", "", "")
	search := fs.Bool("search", false, "")
	fs.Parse(os.Args[2:])
	f, ok := campaigns[prop]
	if !ok {
		fmt.Fprintln(os.Stderr, "unknown property", prop)
		os.Exit(2)
	}
	c := &Ctx{Tier: *tier, Seed: *seed, Or: &Oracle{path: *or}, Lfs: *lfs, Corpus: *corpus, Replay: *replay, Work: *work, Search: *search}
	c.R = NewResult(prop, *tier, *seed)
	f(c)
	if *out != "" {
		c.R.Write(*out)
	}
	fmt.Printf("%s: evaluations=%d nontrivial=%d findings=%d\n", prop, c.R.Evaluations, c.R.Nontrivial, len(c.R.Findings))
}
