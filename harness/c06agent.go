// C06 with the real queue, the real custom adapter and an agent process whose FIRST start fails:
// the objects of that batch are reported as failed, later batches are served, and the command ends.
package main

import (
	"fmt"
	"os"
	"path/filepath"
	"strings"
	"time"
)

func c06AgentStart(c *Ctx, r *Rng) {
	n := c.N(6, 60)
	self, err := os.Executable()
	if err != nil {
		return
	}
	for i := 0; i < n; i++ {
		base := filepath.Join(c.Work, fmt.Sprintf("c06a-%d", i))
		os.MkdirAll(base, 0o755)
		w, err := newScenRepo(c, filepath.Join(base, "w"), nil)
		if err != nil {
			os.RemoveAll(base)
			continue
		}
		store := filepath.Join(base, "store")
		scratch := filepath.Join(base, "scratch")
		os.MkdirAll(store, 0o755)
		os.MkdirAll(scratch, 0o755)
		w.write(".gitattributes", []byte("*.bin filter=lfs -text\n"))
		nobj := 2 + r.Intn(4)
		var oids []string
		for k := 0; k < nobj; k++ {
			b := r.Bytes(50 + 10*k)
			w.write(fmt.Sprintf("f%d.bin", k), b)
			os.WriteFile(filepath.Join(store, sha(b)), b, 0o644)
			oids = append(oids, sha(b))
		}
		w.git("add", "-A")
		w.git("commit", "-qm", "objs")
		for _, o := range oids {
			os.Remove(w.objectPath(o))
		}
		batch := Pick(r, []int{1, 1, 2})
		workers := Pick(r, []int{1, 2, 3})
		failFirst := r.Chance(75)
		w.git("config", "lfs.transfer.batchsize", fmt.Sprint(batch))
		w.git("config", "lfs.concurrenttransfers", fmt.Sprint(workers))
		w.git("config", "lfs.transfer.maxretries", "1")
		w.git("config", "lfs.url", "http://127.0.0.1:9/never-contacted")
		w.git("config", "lfs.standalonetransferagent", "flaky")
		w.git("config", "lfs.customtransfer.flaky.path", self)
		w.git("config", "lfs.customtransfer.flaky.args", "custom-agent")
		w.git("config", "lfs.customtransfer.flaky.concurrent", Pick(r, []string{"true", "false"}))
		script := filepath.Join(base, "script")
		os.WriteFile(script, []byte("x/"+store+"|"+scratch+"\n"), 0o644)
		env := append(append([]string(nil), w.env...), "VERIF_AGENT_SCRIPT="+script, "VERIF_AGENT_REPEAT=1")
		if failFirst {
			env = append(env, "VERIF_AGENT_FAIL_FIRST="+filepath.Join(base, "started-once"))
		}
		enc := fmt.Sprintf("C06 agent-start seed=%d idx=%d objects=%d batch=%d workers=%d first-start-fails=%v", c.Seed, i, nobj, batch, workers, failFirst)
		type res struct {
			out  string
			code int
		}
		done := make(chan res, 1)
		go func() {
			o, cd := runIn(w.dir, env, w.lfs, "fetch", "--all")
			done <- res{o, cd}
		}()
		c.R.Eval(enc, failFirst)
		c.R.Count("agent-start." + map[bool]string{true: "first-fails", false: "ok"}[failFirst])
		select {
		case rs := <-done:
			have := 0
			for _, o := range oids {
				if b, err := os.ReadFile(w.objectPath(o)); err == nil && sha(b) == o {
					have++
				}
			}
			if !failFirst && (rs.code != 0 || have != nobj) {
				c.R.Add(Finding{Kind: "oracle", What: "a fetch through a healthy custom transfer agent did not store every object", Case: enc, Impl: fmt.Sprintf("exit %d, %d of %d stored: %s", rs.code, have, nobj, clip(rs.out, 300))})
			}
			if rs.code == 0 && have != nobj {
				c.R.Add(Finding{Kind: "oracle", What: "fetch exited 0 although an object is not in local storage and no error was reported", Case: enc, Impl: fmt.Sprintf("%d of %d stored: %s", have, nobj, clip(rs.out, 300))})
			}
		case <-time.After(25 * time.Second):
			exec_pkill(w.dir)
			c.R.Add(Finding{Kind: "oracle", What: "Wait never returned", Case: enc, Impl: "git lfs fetch was still running after 25 s (the agent's first start failed, a later batch started it again)"})
		}
		os.RemoveAll(base)
		os.Remove(filepath.Join(base, "w.gitconfig"))
	}
}

// exec_pkill ends the git-lfs processes working in dir (their command lines carry no unique mark; the
// working directory does)
func exec_pkill(dir string) {
	ents, _ := os.ReadDir("/proc")
	for _, e := range ents {
		cwd, err := os.Readlink(filepath.Join("/proc", e.Name(), "cwd"))
		if err != nil || !strings.HasPrefix(cwd, dir) {
			continue
		}
		var pid int
		if _, err := fmt.Sscan(e.Name(), &pid); err == nil && pid != os.Getpid() {
			if p, err := os.FindProcess(pid); err == nil {
				p.Kill()
			}
		}
	}
}
