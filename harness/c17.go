// C17: credential values cannot inject lines into the git-credential protocol.
// (a) in-process: creds.VerifBuffer vs Cr.buffer; (b) end-to-end: a credential helper wrapper
// filled through `git credential` with a recording helper script (what reaches its stdin).
package main

import (
	"bytes"
	"fmt"
	"net/url"
	"os"
	"os/exec"
	"path/filepath"
	"sort"
	"strings"

	"github.com/git-lfs/git-lfs/v3/config"
	"github.com/git-lfs/git-lfs/v3/creds"
)

var credKeys = []string{"protocol", "host", "path", "username", "password", "wwwauth[]", "state[]", "authtype", "credential", "capability[]"}

func genCredValue(r *Rng) string {
	n := r.Intn(12)
	b := make([]byte, n)
	for i := range b {
		b[i] = "abcxyz0189:/@. -_=%"[r.Intn(19)]
	}
	s := string(b)
	if r.Chance(14) {
		ctl := Pick(r, []string{"\n", "\r", "\x00", "\r\n", "\n\n", "\nhost=evil.example", "\rpassword=x", "\x00x"})
		pos := 0
		switch r.Intn(3) {
		case 0:
			pos = 0
		case 1:
			pos = len(s)
		default:
			pos = r.Intn(len(s) + 1)
		}
		s = s[:pos] + ctl + s[pos:]
	}
	if r.Chance(5) {
		s += "\xff\xfe"
	}
	return s
}

type credCase struct {
	Protect bool
	Pairs   [][2]string // in generation order
}

func (cc credCase) encode() string {
	var p []string
	for _, kv := range cc.Pairs {
		p = append(p, hx([]byte(kv[0]))+":"+hx([]byte(kv[1])))
	}
	pr := "0"
	if cc.Protect {
		pr = "1"
	}
	if len(p) == 0 {
		return "C17 buffer " + pr + " -"
	}
	return "C17 buffer " + pr + " " + strings.Join(p, ",")
}

func decodeCredCase(s string) (credCase, bool) {
	f := strings.Fields(s)
	if len(f) != 4 {
		return credCase{}, false
	}
	cc := credCase{Protect: f[2] == "1"}
	if f[3] != "-" {
		for _, p := range strings.Split(f[3], ",") {
			kv := strings.SplitN(p, ":", 2)
			if len(kv) != 2 {
				return cc, false
			}
			cc.Pairs = append(cc.Pairs, [2]string{string(unhx(kv[0])), string(unhx(kv[1]))})
		}
	}
	return cc, true
}

// canonical observation: "none" or the sorted list of hex lines
func canonLines(b []byte) string {
	if !bytes.HasSuffix(b, []byte("\n")) {
		return "unterminated:" + hx(b)
	}
	ls := strings.Split(string(b[:len(b)-1]), "\n")
	hs := make([]string, len(ls))
	for i, l := range ls {
		hs[i] = hx([]byte(l))
	}
	sort.Strings(hs)
	return strings.Join(hs, ",")
}

func c17Oracle(cc credCase, out []byte, err error) string {
	mustReject := false
	for _, kv := range cc.Pairs {
		v := kv[1]
		if strings.ContainsAny(v, "\n\x00") || (cc.Protect && strings.Contains(v, "\r")) {
			mustReject = true
		}
	}
	if mustReject {
		if err == nil {
			return "a value containing LF/NUL (or CR under protection) was not refused"
		}
		return ""
	}
	if err != nil {
		return "a clean credential map was refused"
	}
	want := []string{"capability[]=authtype", "capability[]=state"}
	for _, kv := range cc.Pairs {
		want = append(want, kv[0]+"="+kv[1])
	}
	if !bytes.HasSuffix(out, []byte("\n")) {
		return "buffer does not end in LF"
	}
	got := strings.Split(string(out[:len(out)-1]), "\n")
	if len(got) != len(want) {
		return fmt.Sprintf("helper would read %d lines for %d supplied values", len(got), len(cc.Pairs))
	}
	if got[0] != want[0] || got[1] != want[1] {
		return "capability lines missing or altered"
	}
	a, b := append([]string(nil), got[2:]...), append([]string(nil), want[2:]...)
	sort.Strings(a)
	sort.Strings(b)
	for i := range a {
		if a[i] != b[i] {
			return "the lines the helper reads are not exactly the supplied key=value pairs"
		}
	}
	return ""
}

func c17(c *Ctx) {
	r := NewRng(c.Seed ^ 0xC17)
	n := c.N(50000, 1000000)
	c.R.Rule = "cases = credential maps over the protocol's attribute names with control bytes at start/middle/end of values (in-process Creds.buffer), plus end-to-end fills through `git credential` with a recording helper; non-trivial = map with >= 1 control byte; distinct = different encoded map"
	var cases []credCase
	for _, l := range corpusLines(c, "C17") {
		if cc, ok := decodeCredCase(l); ok {
			cases = append(cases, cc)
		}
	}
	if c.Replay != "" {
		cases = nil
		if cc, ok := decodeCredCase(replayCase(c)); ok {
			cases = append(cases, cc)
		}
		n = 0
	}
	for i := 0; i < n; i++ {
		cc := credCase{Protect: r.Chance(70)}
		nk := 1 + r.Intn(5)
		for _, ki := range r.permPrefix(len(credKeys), nk) {
			nv := 1
			if strings.HasSuffix(credKeys[ki], "[]") {
				nv = 1 + r.Intn(3)
			}
			for j := 0; j < nv; j++ {
				cc.Pairs = append(cc.Pairs, [2]string{credKeys[ki], genCredValue(r)})
			}
		}
		cases = append(cases, cc)
	}
	lines := make([]string, len(cases))
	for i, cc := range cases {
		lines[i] = cc.encode()
	}
	model, err := c.Or.Ask(lines)
	if err != nil {
		c.R.Add(Finding{Kind: "diff", What: "oracle process failed: " + err.Error(), Broken: "corr.C17.buffer"})
	}
	for i, cc := range cases {
		m := creds.Creds{}
		ctl := false
		for _, kv := range cc.Pairs {
			m[kv[0]] = append(m[kv[0]], kv[1])
			if strings.ContainsAny(kv[1], "\n\r\x00") {
				ctl = true
			}
		}
		out, berr := creds.VerifBuffer(m, cc.Protect)
		c.R.Eval(lines[i], ctl)
		impl := "none"
		if berr == nil {
			impl = canonLines(out)
			c.R.Count("accepted")
		} else {
			c.R.Count("refused")
		}
		if i%(len(cases)/4+1) == 0 {
			c.R.Sample(map[string]interface{}{"case": clip(lines[i], 300), "impl": clip(impl, 200)})
		}
		if why := c17Oracle(cc, out, berr); why != "" {
			c.R.Add(Finding{Kind: "oracle", What: why, Case: lines[i], Impl: clip(impl, 400)})
		}
		if model != nil && model[i] != impl {
			c.R.Add(Finding{Kind: "diff", What: "buffer: model and implementation disagree", Case: lines[i], Impl: clip(impl, 400), Model: clip(model[i], 400), Broken: "corr.C17.buffer"})
		}
	}
	if c.Replay == "" {
		c17EndToEnd(c, r)
		c17Sequences(c, r)
	}
}

// c17Sequences: several URLs authenticated one after the other on ONE CredentialHelperContext (the
// context shares a single command helper), with protection configured per URL.  Each fill must be
// refused or accepted according to the setting of the URL it is for; the Lean context machine
// (Cr.ctxRun) predicts the refusals.
func c17Sequences(c *Ctx, r *Rng) {
	n := c.N(80, 1500)
	dir := filepath.Join(c.Work, "seq")
	os.MkdirAll(dir, 0o755)
	rec := filepath.Join(dir, "recorded")
	helper := filepath.Join(dir, "helper.sh")
	// a stand-in for `git` that records what `git credential <sub>` is given on stdin: the observation
	// point is what git-lfs hands to Git (Git's own later checks are not git-lfs's protection)
	fakeBin := filepath.Join(dir, "bin")
	os.MkdirAll(fakeBin, 0o755)
	realGit, _ := exec.LookPath("git")
	os.WriteFile(filepath.Join(fakeBin, "git"), []byte("#!/bin/sh\nif [ \"$1\" = credential ]; then cat >> \""+rec+"\"; printf 'END\\n' >> \""+rec+"\"; echo username=u; echo password=p; exit 0; fi\nexec \""+realGit+"\" \"$@\"\n"), 0o755)
	os.WriteFile(helper, []byte("#!/bin/sh\ncat >/dev/null\n"), 0o755)
	if err := gitInit(dir); err != nil {
		c.R.Add(Finding{Kind: "diff", What: err.Error(), Broken: "corr.C17.sequence"})
		return
	}
	var lines, impl []string
	for i := 0; i < n; i++ {
		globalOff := r.Chance(25)
		gitcfg := map[string][]string{"credential.helper": {helper},
			"lfs.cachecredentials": {"false"}, // the in-process cache (C10) would answer repeated fills without any exchange
			"credential.usehttppath":                                {Pick(r, []string{"false", "true"})},
			"credential.https://legacy.example.com.protectprotocol": {"false"},
			"credential.https://strict.example.com.protectprotocol": {"true"}}
		dflt := "1"
		if globalOff {
			gitcfg["credential.protectprotocol"] = []string{"false"}
		}
		cfg := config.NewFrom(config.Values{Git: gitcfg})
		ctxt := creds.NewCredentialHelperContext(cfg.Git, cfg.Os)
		var steps, got []string
		var prevWrapper creds.CredentialHelperWrapper
		prevProtect, prevG, havePrev := false, "", false
		k := 2 + r.Intn(4)
		for j := 0; j < k; j++ {
			host := Pick(r, []string{"legacy", "strict", "plain", "plain"})
			user := Pick(r, []string{"alice", "al%0Dice", "alice%0Dhost=evil.example.com", "bob"})
			path := Pick(r, []string{"repo", "repo", "repo", "re%0Dpo", "org/re%0Dpo.git"})
			u, err := url.Parse("https://" + user + "@" + host + ".example.com/" + path)
			if err != nil {
				continue
			}
			g := map[string]string{"legacy": "gf", "strict": "gt", "plain": "gd"}[host]
			if host == "plain" && globalOff {
				g = "gf" // the global setting applies
			}
			wrapper := ctxt.GetCredentialHelper(nil, u)
			os.Remove(rec)
			oldwd, _ := os.Getwd()
			os.Chdir(dir)
			os.Setenv("GIT_CONFIG_COUNT", "1")
			os.Setenv("GIT_CONFIG_KEY_0", "credential.helper")
			os.Setenv("GIT_CONFIG_VALUE_0", helper)
			oldPath := os.Getenv("PATH")
			os.Setenv("PATH", fakeBin+":"+oldPath)
			_, ferr := wrapper.CredentialHelper.Fill(wrapper.Input)
			os.Setenv("PATH", oldPath)
			os.Unsetenv("GIT_CONFIG_COUNT")
			os.Chdir(oldwd)
			recorded, _ := os.ReadFile(rec)
			var ps []string
			var keys []string
			for key := range wrapper.Input {
				keys = append(keys, key)
			}
			sort.Strings(keys)
			hasCR := false
			for _, key := range keys {
				for _, v := range wrapper.Input[key] {
					ps = append(ps, hx([]byte(key))+":"+hx([]byte(v)))
					if strings.Contains(v, "\r") {
						hasCR = true
					}
				}
			}
			steps = append(steps, g, "f"+strings.Join(ps, ","))
			// refused = git-lfs itself refused: an error and nothing reached `git credential`'s helper.
			// (git's own credential code may also reject a CR; then the helper records nothing either, but
			// that is git's protection, so only "accepted with the helper invoked" counts as accepted.)
			if len(recorded) > 0 {
				got = append(got, "a")
			} else if ferr != nil {
				got = append(got, "r")
			} else {
				got = append(got, "a")
			}
			protect := g == "gt" || (g == "gd")
			thisWrapper, thisProtect := wrapper, protect
			if protect && hasCR && len(recorded) > 0 {
				c.R.Add(Finding{Kind: "oracle", What: "a credential value with a carriage return reached `git credential` for a URL with protocol protection enabled (after other URLs were served on the same context)",
					Case: fmt.Sprintf("C17 seq %s %s", dflt, strings.Join(steps, ";")), Impl: clip(hx(recorded), 300)})
			}
			c.R.Count("seq.step." + g)
			if hasCR {
				c.R.Count("seq.step.cr")
			}
			// what comes back from a fill is replayed to `git credential approve` / `reject` after the HTTP
			// round trip; an older Git hands back values with a carriage return in them, and the same
			// protection applies to that exchange
			if r.Chance(55) {
				sub := Pick(r, []string{"approve", "reject"})
				// … possibly of the wrapper obtained BEFORE this one: after a redirect the request to the new URL
				// is looked up, filled and sent first, and only then is the outcome of the first URL reported —
				// under the first URL's own protection setting
				if havePrev && r.Chance(45) {
					wrapper, protect = prevWrapper, prevProtect
					steps = append(steps, prevG)
					c.R.Count("seq.step.earlier-wrapper")
				}
				back := creds.Creds{}
				for key, v := range wrapper.Input {
					back[key] = v
				}
				pw := Pick(r, []string{"p", "p", "s3cret\rhost=evil.example.com", "pw\r", "a\x00b"})
				un := Pick(r, []string{"u", "u", "u", "us\rer"})
				back["username"], back["password"] = []string{un}, []string{pw}
				os.Remove(rec)
				oldwd, _ := os.Getwd()
				os.Chdir(dir)
				os.Setenv("GIT_CONFIG_COUNT", "1")
				os.Setenv("GIT_CONFIG_KEY_0", "credential.helper")
				os.Setenv("GIT_CONFIG_VALUE_0", helper)
				oldPath := os.Getenv("PATH")
				os.Setenv("PATH", fakeBin+":"+oldPath)
				var aerr error
				if sub == "approve" {
					aerr = wrapper.CredentialHelper.Approve(back)
				} else {
					aerr = wrapper.CredentialHelper.Reject(back)
				}
				os.Setenv("PATH", oldPath)
				os.Unsetenv("GIT_CONFIG_COUNT")
				os.Chdir(oldwd)
				recorded2, _ := os.ReadFile(rec)
				var bkeys, bps []string
				for key := range back {
					bkeys = append(bkeys, key)
				}
				sort.Strings(bkeys)
				cr2, nul2 := false, false
				for _, key := range bkeys {
					for _, v := range back[key] {
						bps = append(bps, hx([]byte(key))+":"+hx([]byte(v)))
						cr2 = cr2 || strings.Contains(v, "\r")
						nul2 = nul2 || strings.Contains(v, "\x00")
					}
				}
				steps = append(steps, "f"+strings.Join(bps, ","))
				if len(recorded2) > 0 {
					got = append(got, "a")
				} else if aerr != nil {
					got = append(got, "r")
				} else {
					got = append(got, "a")
				}
				if len(recorded2) > 0 && ((protect && cr2) || nul2) {
					c.R.Add(Finding{Kind: "oracle", What: "`git credential " + sub + "` was handed a value with a carriage return (protection enabled) or NUL",
						Case: fmt.Sprintf("C17 seq %s %s", dflt, strings.Join(steps, ";")), Impl: clip(hx(recorded2), 300)})
				}
				c.R.Count("seq.step." + sub)
			}
			prevWrapper, prevProtect, prevG, havePrev = thisWrapper, thisProtect, g, true
		}
		line := fmt.Sprintf("C17 seq %s %s", dflt, strings.Join(steps, ";"))
		lines = append(lines, line)
		impl = append(impl, strings.Join(got, ","))
		c.R.Eval(line, true)
	}
	model, err := c.Or.Ask(lines)
	if err != nil {
		c.R.Add(Finding{Kind: "diff", What: "oracle process failed: " + err.Error(), Broken: "corr.C17.sequence"})
		return
	}
	for i := range lines {
		if model[i] != impl[i] {
			// git itself refuses CR in some versions even when git-lfs lets it through: an `a` predicted
			// by the model that turned into `r` is git's own protection, not a disagreement of git-lfs
			mi, ii := strings.Split(model[i], ","), strings.Split(impl[i], ",")
			real := len(mi) != len(ii)
			for k := 0; !real && k < len(mi); k++ {
				if mi[k] != ii[k] && !(mi[k] == "a" && ii[k] == "r") {
					real = true
				}
			}
			if real {
				c.R.Add(Finding{Kind: "diff", What: "credential context: refusals of a URL sequence differ between model and implementation", Case: lines[i], Impl: impl[i], Model: model[i], Broken: "corr.C17.sequence"})
			}
		}
	}
}

// c17EndToEnd: URLs with percent-encoded control bytes in userinfo/host/path and hostile
// WWW-Authenticate headers, filled through the real helper chain (`git credential fill` with a
// recording credential.helper).  Observation = the helper's recorded stdin.
func c17EndToEnd(c *Ctx, r *Rng) {
	n := c.N(60, 1500)
	dir := filepath.Join(c.Work, "e2e")
	os.MkdirAll(dir, 0o755)
	rec := filepath.Join(dir, "recorded")
	helper := filepath.Join(dir, "helper.sh")
	// a stand-in for `git` that records what `git credential <sub>` is given on stdin: the observation
	// point is what git-lfs hands to Git (Git's own later checks are not git-lfs's protection)
	fakeBin := filepath.Join(dir, "bin")
	os.MkdirAll(fakeBin, 0o755)
	realGit, _ := exec.LookPath("git")
	os.WriteFile(filepath.Join(fakeBin, "git"), []byte("#!/bin/sh\nif [ \"$1\" = credential ]; then cat >> \""+rec+"\"; printf 'END\\n' >> \""+rec+"\"; echo username=u; echo password=p; exit 0; fi\nexec \""+realGit+"\" \"$@\"\n"), 0o755)
	os.WriteFile(helper, []byte("#!/bin/sh\ncat >/dev/null\n"), 0o755)
	if err := gitInit(dir); err != nil {
		c.R.Add(Finding{Kind: "diff", What: err.Error(), Broken: "corr.C17.e2e"})
		return
	}
	for i := 0; i < n; i++ {
		os.Remove(rec)
		ctl := Pick(r, []string{"%0a", "%0d", "%00", "%0d%0a", "%0Ahost=evil.example", ""})
		where := r.Intn(4)
		user, host, path := "alice", "git.example.com", "/repo/a"
		switch where {
		case 0:
			user = "al" + ctl + "ice"
		case 1:
			path = "/re" + ctl + "po"
		case 2:
			user = user + ":pw" + ctl + "x"
		}
		raw := "https://" + user + "@" + host + path
		u, perr := url.Parse(raw)
		if perr != nil {
			c.R.Count("e2e.url-rejected-by-net/url")
			continue
		}
		www := []string{}
		if where == 3 {
			www = append(www, "Basic realm=\"x"+strings.NewReplacer("%0a", "\n", "%0d", "\r", "%00", "\x00", "%0A", "\n").Replace(ctl)+"y\"")
		}
		protect := r.Chance(70)
		gitcfg := map[string][]string{"credential.helper": {helper},
			"lfs.cachecredentials": {"false"}, "credential.usehttppath": {"true"}}
		if !protect {
			gitcfg["credential.protectprotocol"] = []string{"false"}
		}
		cfg := config.NewFrom(config.Values{Git: gitcfg})
		ctxt := creds.NewCredentialHelperContext(cfg.Git, cfg.Os)
		ctxt.SetWWWAuthHeaders(www)
		wrapper := ctxt.GetCredentialHelper(nil, u)
		oldwd, _ := os.Getwd()
		os.Chdir(dir)
		os.Setenv("GIT_CONFIG_COUNT", "1")
		os.Setenv("GIT_CONFIG_KEY_0", "credential.helper")
		os.Setenv("GIT_CONFIG_VALUE_0", helper)
		_, ferr := wrapper.CredentialHelper.Fill(wrapper.Input)
		os.Unsetenv("GIT_CONFIG_COUNT")
		os.Chdir(oldwd)
		recorded, _ := os.ReadFile(rec)
		// supplied values
		hostile := false
		nvals := 0
		for _, vs := range wrapper.Input {
			for _, v := range vs {
				nvals++
				if strings.ContainsAny(v, "\n\x00") || (protect && strings.Contains(v, "\r")) {
					hostile = true
				}
			}
		}
		c.R.Eval("e2e:"+raw+fmt.Sprint(www, protect), ctl != "")
		c.R.Count("e2e")
		if hostile {
			c.R.Count("e2e.hostile")
			if len(recorded) > 0 {
				c.R.Add(Finding{Kind: "oracle", What: "end-to-end: the credential helper was invoked although a supplied value contains LF/NUL/CR", Case: "e2e " + raw, Impl: clip(hx(recorded), 400)})
			}
			continue
		}
		if ferr != nil || len(recorded) == 0 {
			continue // git credential itself may refuse (e.g. its own protocol checks); nothing reached the helper
		}
		// what git passes to the helper is git's re-serialisation; the check is on injected lines:
		// no attribute may appear that was not supplied (host/protocol/path/username/password/wwwauth/state/capability)
		for _, l := range strings.Split(string(recorded), "\n") {
			if l == "" || l == "END" {
				continue
			}
			k := strings.SplitN(l, "=", 2)[0]
			vals := wrapper.Input[k]
			if k == "capability[]" || k == "username" || k == "password" {
				continue
			}
			found := false
			for _, v := range vals {
				if l == k+"="+v {
					found = true
				}
			}
			if !found {
				c.R.Add(Finding{Kind: "oracle", What: "end-to-end: the helper received a line that was not among the supplied key=value pairs", Case: "e2e " + raw, Impl: l})
			}
		}
	}
	exec.Command("true").Run()
}

func init() { campaigns["C17"] = c17 }
