// C17: credential values cannot inject lines into the git-credential protocol.
// (a) in-process: creds.VerifBuffer vs Cr.buffer; (b) end-to-end: a credential helper wrapper
// filled through `git credential` with a recording helper script (what reaches its stdin).
package main

import (
	"bytes"
	"fmt"
	"net/url"
	"os"
	"os/exec"
	"path/filepath"
	"sort"
	"strings"

	"github.com/git-lfs/git-lfs/v3/config"
	"github.com/git-lfs/git-lfs/v3/creds"
)

var credKeys = []string{"protocol", "host", "path", "username", "password", "wwwauth[]", "state[]", "authtype", "credential", "capability[]"}

func genCredValue(r *Rng) string {
	n := r.Intn(12)
	b := make([]byte, n)
	for i := range b {
		b[i] = "abcxyz0189:/@. -_=%"[r.Intn(19)]
	}
	s := string(b)
	if r.Chance(14) {
		ctl := Pick(r, []string{"\n", "\r", "\x00", "\r\n", "\n\n", "\nhost=evil.example", "\rpassword=x", "\x00x"})
		pos := 0
		switch r.Intn(3) {
		case 0:
			pos = 0
		case 1:
			pos = len(s)
		default:
			pos = r.Intn(len(s) + 1)
		}
		s = s[:pos] + ctl + s[pos:]
	}
	if r.Chance(5) {
		s += "\xff\xfe"
	}
	return s
}

type credCase struct {
	Protect bool
	Pairs   [][2]string // in generation order
}

func (cc credCase) encode() string {
	var p []string
	for _, kv := range cc.Pairs {
		p = append(p, hx([]byte(kv[0]))+":"+hx([]byte(kv[1])))
	}
	pr := "0"
	if cc.Protect {
		pr = "1"
	}
	if len(p) == 0 {
		return "C17 buffer " + pr + " -"
	}
	return "C17 buffer " + pr + " " + strings.Join(p, ",")
}

func decodeCredCase(s string) (credCase, bool) {
	f := strings.Fields(s)
	if len(f) != 4 {
		return credCase{}, false
	}
	cc := credCase{Protect: f[2] == "1"}
	if f[3] != "-" {
		for _, p := range strings.Split(f[3], ",") {
			kv := strings.SplitN(p, ":", 2)
			if len(kv) != 2 {
				return cc, false
			}
			cc.Pairs = append(cc.Pairs, [2]string{string(unhx(kv[0])), string(unhx(kv[1]))})
		}
	}
	return cc, true
}

// canonical observation: "none" or the sorted list of hex lines
func canonLines(b []byte) string {
	if !bytes.HasSuffix(b, []byte("\n")) {
		return "unterminated:" + hx(b)
	}
	ls := strings.Split(string(b[:len(b)-1]), "\n")
	hs := make([]string, len(ls))
	for i, l := range ls {
		hs[i] = hx([]byte(l))
	}
	sort.Strings(hs)
	return strings.Join(hs, ",")
}

func c17Oracle(cc credCase, out []byte, err error) string {
	mustReject := false
	for _, kv := range cc.Pairs {
		v := kv[1]
		if strings.ContainsAny(v, "\n\x00") || (cc.Protect && strings.Contains(v, "\r")) {
			mustReject = true
		}
	}
	if mustReject {
		if err == nil {
			return "a value containing LF/NUL (or CR under protection) was not refused"
		}
		return ""
	}
	if err != nil {
		return "a clean credential map was refused"
	}
	want := []string{"capability[]=authtype", "capability[]=state"}
	for _, kv := range cc.Pairs {
		want = append(want, kv[0]+"="+kv[1])
	}
	if !bytes.HasSuffix(out, []byte("\n")) {
		return "buffer does not end in LF"
	}
	got := strings.Split(string(out[:len(out)-1]), "\n")
	if len(got) != len(want) {
		return fmt.Sprintf("helper would read %d lines for %d supplied values", len(got), len(cc.Pairs))
	}
	if got[0] != want[0] || got[1] != want[1] {
		return "capability lines missing or altered"
	}
	a, b := append([]string(nil), got[2:]...), append([]string(nil), want[2:]...)
	sort.Strings(a)
	sort.Strings(b)
	for i := range a {
		if a[i] != b[i] {
			return "the lines the helper reads are not exactly the supplied key=value pairs"
		}
	}
	return ""
}

func c17(c *Ctx) {
	r := NewRng(c.Seed ^ 0xC17)
	n := c.N(50000, 1000000)
	c.R.Rule = "cases = credential maps over the protocol's attribute names with control bytes at start/middle/end of values (in-process Creds.buffer), plus end-to-end fills through `git credential` with a recording helper; non-trivial = map with >= 1 control byte; distinct = different encoded map"
	var cases []credCase
	for _, l := range corpusLines(c, "C17") {
		if cc, ok := decodeCredCase(l); ok {
			cases = append(cases, cc)
		}
	}
	if c.Replay != "" {
		cases = nil
		if cc, ok := decodeCredCase(replayCase(c)); ok {
			cases = append(cases, cc)
		}
		n = 0
	}
	for i := 0; i < n; i++ {
		cc := credCase{Protect: r.Chance(70)}
		nk := 1 + r.Intn(5)
		for _, ki := range r.permPrefix(len(credKeys), nk) {
			nv := 1
			if strings.HasSuffix(credKeys[ki], "[]") {
				nv = 1 + r.Intn(3)
			}
			for j := 0; j < nv; j++ {
				cc.Pairs = append(cc.Pairs, [2]string{credKeys[ki], genCredValue(r)})
			}
		}
		cases = append(cases, cc)
	}
	lines := make([]string, len(cases))
	for i, cc := range cases {
		lines[i] = cc.encode()
	}
	model, err := c.Or.Ask(lines)
	if err != nil {
		c.R.Add(Finding{Kind: "diff", What: "oracle process failed: " + err.Error(), Broken: "corr.C17.buffer"})
	}
	for i, cc := range cases {
		m := creds.Creds{}
		ctl := false
		for _, kv := range cc.Pairs {
			m[kv[0]] = append(m[kv[0]], kv[1])
			if strings.ContainsAny(kv[1], "\n\r\x00") {
				ctl = true
			}
		}
		out, berr := creds.VerifBuffer(m, cc.Protect)
		c.R.Eval(lines[i], ctl)
		impl := "none"
		if berr == nil {
			impl = canonLines(out)
			c.R.Count("accepted")
		} else {
			c.R.Count("refused")
		}
		if i%(len(cases)/4+1) == 0 {
			c.R.Sample(map[string]interface{}{"case": clip(lines[i], 300), "impl": clip(impl, 200)})
		}
		if why := c17Oracle(cc, out, berr); why != "" {
			c.R.Add(Finding{Kind: "oracle", What: why, Case: lines[i], Impl: clip(impl, 400)})
		}
		if model != nil && model[i] != impl {
			c.R.Add(Finding{Kind: "diff", What: "buffer: model and implementation disagree", Case: lines[i], Impl: clip(impl, 400), Model: clip(model[i], 400), Broken: "corr.C17.buffer"})
		}
	}
	if c.Replay == "" {
		c17EndToEnd(c, r)
	}
}

// c17EndToEnd: URLs with percent-encoded control bytes in userinfo/host/path and hostile
// WWW-Authenticate headers, filled through the real helper chain (`git credential fill` with a
// recording credential.helper).  Observation = the helper's recorded stdin.
func c17EndToEnd(c *Ctx, r *Rng) {
	n := c.N(60, 1500)
	dir := filepath.Join(c.Work, "e2e")
	os.MkdirAll(dir, 0o755)
	rec := filepath.Join(dir, "recorded")
	helper := filepath.Join(dir, "helper.sh")
	os.WriteFile(helper, []byte("#!/bin/sh\nif [ \"$1\" = get ]; then cat >> \""+rec+"\"; printf 'END\\n' >> \""+rec+"\"; echo username=u; echo password=p; else cat >/dev/null; fi\n"), 0o755)
	if err := gitInit(dir); err != nil {
		c.R.Add(Finding{Kind: "diff", What: err.Error(), Broken: "corr.C17.e2e"})
		return
	}
	for i := 0; i < n; i++ {
		os.Remove(rec)
		ctl := Pick(r, []string{"%0a", "%0d", "%00", "%0d%0a", "%0Ahost=evil.example", ""})
		where := r.Intn(4)
		user, host, path := "alice", "git.example.com", "/repo/a"
		switch where {
		case 0:
			user = "al" + ctl + "ice"
		case 1:
			path = "/re" + ctl + "po"
		case 2:
			user = user + ":pw" + ctl + "x"
		}
		raw := "https://" + user + "@" + host + path
		u, perr := url.Parse(raw)
		if perr != nil {
			c.R.Count("e2e.url-rejected-by-net/url")
			continue
		}
		www := []string{}
		if where == 3 {
			www = append(www, "Basic realm=\"x"+strings.NewReplacer("%0a", "\n", "%0d", "\r", "%00", "\x00", "%0A", "\n").Replace(ctl)+"y\"")
		}
		protect := r.Chance(70)
		gitcfg := map[string][]string{"credential.helper": {helper}, "credential.usehttppath": {"true"}}
		if !protect {
			gitcfg["credential.protectprotocol"] = []string{"false"}
		}
		cfg := config.NewFrom(config.Values{Git: gitcfg})
		ctxt := creds.NewCredentialHelperContext(cfg.Git, cfg.Os)
		ctxt.SetWWWAuthHeaders(www)
		wrapper := ctxt.GetCredentialHelper(nil, u)
		oldwd, _ := os.Getwd()
		os.Chdir(dir)
		os.Setenv("GIT_CONFIG_COUNT", "1")
		os.Setenv("GIT_CONFIG_KEY_0", "credential.helper")
		os.Setenv("GIT_CONFIG_VALUE_0", helper)
		_, ferr := wrapper.CredentialHelper.Fill(wrapper.Input)
		os.Unsetenv("GIT_CONFIG_COUNT")
		os.Chdir(oldwd)
		recorded, _ := os.ReadFile(rec)
		// supplied values
		hostile := false
		nvals := 0
		for _, vs := range wrapper.Input {
			for _, v := range vs {
				nvals++
				if strings.ContainsAny(v, "\n\x00") || (protect && strings.Contains(v, "\r")) {
					hostile = true
				}
			}
		}
		c.R.Eval("e2e:"+raw+fmt.Sprint(www, protect), ctl != "")
		c.R.Count("e2e")
		if hostile {
			c.R.Count("e2e.hostile")
			if len(recorded) > 0 {
				c.R.Add(Finding{Kind: "oracle", What: "end-to-end: the credential helper was invoked although a supplied value contains LF/NUL/CR", Case: "e2e " + raw, Impl: clip(hx(recorded), 400)})
			}
			continue
		}
		if ferr != nil || len(recorded) == 0 {
			continue // git credential itself may refuse (e.g. its own protocol checks); nothing reached the helper
		}
		// what git passes to the helper is git's re-serialisation; the check is on injected lines:
		// no attribute may appear that was not supplied (host/protocol/path/username/password/wwwauth/state/capability)
		for _, l := range strings.Split(string(recorded), "\n") {
			if l == "" || l == "END" {
				continue
			}
			k := strings.SplitN(l, "=", 2)[0]
			vals := wrapper.Input[k]
			if k == "capability[]" || k == "username" || k == "password" {
				continue
			}
			found := false
			for _, v := range vals {
				if l == k+"="+v {
					found = true
				}
			}
			if !found {
				c.R.Add(Finding{Kind: "oracle", What: "end-to-end: the helper received a line that was not among the supplied key=value pairs", Case: "e2e " + raw, Impl: l})
			}
		}
	}
	exec.Command("true").Run()
}

func init() { campaigns["C17"] = c17 }
