// C04: fetch, pull and checkout materialise exact content and never clobber edits.
//
//	(A) filepathfilter.Filter.Allows in process over table-driven Pattern stubs vs the Lean model;
//	(B) scenarios with the real binary: a history pushed to a bare remote + fake LFS server, cloned
//	    with smudging skipped (or not), any subset of objects already local or in a reference store,
//	    include/exclude settings, working files edited / emptied / deleted / replaced by other pointers
//	    / same-oid non-canonical pointers / ≥1024-byte look-alikes / read-only, then fetch, pull,
//	    checkout, clone or git checkout; every path is judged and compared with the model's `run`.
package main

import (
	"bytes"
	"fmt"
	"github.com/git-lfs/git-lfs/v3/tools"
	"os"
	"path/filepath"
	"sort"
	"strings"
	"sync"
	"unicode"

	"github.com/git-lfs/git-lfs/v3/filepathfilter"
)

type stubPattern struct {
	match bool
	name  string
}

func (p stubPattern) Match(string) bool { return p.match }
func (p stubPattern) String() string    { return p.name }

func c04Allows(c *Ctx, r *Rng) {
	n := c.N(1500, 30000)
	var lines, impl []string
	for i := 0; i < n; i++ {
		mk := func() ([]filepathfilter.Pattern, string) {
			k := r.Intn(4)
			if r.Chance(30) {
				k = 0
			}
			var ps []filepathfilter.Pattern
			bits := ""
			for j := 0; j < k; j++ {
				m := r.Chance(35)
				ps = append(ps, stubPattern{m, fmt.Sprintf("p%d", j)})
				if m {
					bits += "1"
				} else {
					bits += "0"
				}
			}
			if bits == "" {
				bits = "-"
			}
			return ps, bits
		}
		inc, ib := mk()
		exc, eb := mk()
		d := r.Chance(70)
		f := filepathfilter.NewFromPatterns(inc, exc, filepathfilter.DefaultValue(d))
		got := "0"
		if f.Allows("some/file.bin") {
			got = "1"
		}
		dd := "0"
		if d {
			dd = "1"
		}
		line := fmt.Sprintf("C04 allows %s %s %s", dd, ib, eb)
		lines = append(lines, line)
		impl = append(impl, got)
		c.R.Eval(line, ib != "-" || eb != "-")
		c.R.Count("allows." + got)
	}
	ans, err := c.Or.Ask(lines)
	if err != nil {
		c.R.Add(Finding{Kind: "diff", What: "oracle process failed: " + err.Error(), Broken: "corr.C04.allows"})
		return
	}
	for i := range lines {
		if ans[i] != impl[i] {
			c.R.Add(Finding{Kind: "diff", What: "Filter.Allows: model and implementation disagree", Case: lines[i], Impl: impl[i], Model: ans[i], Broken: "corr.C04.allows"})
		}
	}
}

// c04Pat: an include/exclude pattern with a hand-written meaning (the harness's own reading of the
// gitignore-style pattern, independent of the wildmatch library)
type c04Pat struct {
	text  string
	match func(path string) bool
}

var c04Pats = []c04Pat{
	{"*.bin", func(p string) bool { return strings.HasSuffix(p, ".bin") }},
	{"*.dat", func(p string) bool { return strings.HasSuffix(p, ".dat") }},
	{"dir", func(p string) bool { return strings.HasPrefix(p, "dir/") }},
	{"dir/", func(p string) bool { return strings.HasPrefix(p, "dir/") }},
	{"dir/sub", func(p string) bool { return strings.HasPrefix(p, "dir/sub/") }},
	{"a.bin", func(p string) bool { return filepath.Base(p) == "a.bin" }},
	{"/b.bin", func(p string) bool { return p == "b.bin" }},
	{"dir/c.bin", func(p string) bool { return p == "dir/c.bin" }},
}

func c04Allowed(inc, exc []c04Pat, path string) bool {
	included := len(inc) == 0
	for _, p := range inc {
		if p.match(path) {
			included = true
		}
	}
	if !included {
		return false
	}
	for _, p := range exc {
		if p.match(path) {
			return false
		}
	}
	return true
}

// patTexts spells the list as users do: elements separated by commas with or without blanks on either side
// (tools.CleanPaths trims every element); which spelling is used depends on the patterns only, so a case replays
func patTexts(ps []c04Pat) string {
	seps := []string{",", ", ", " , ", " ,", ",\t"}
	var sb strings.Builder
	h := 0
	for _, p := range ps {
		h += len(p.text)
	}
	for i, p := range ps {
		if i > 0 {
			sb.WriteString(seps[(h+i)%len(seps)])
		}
		sb.WriteString(p.text)
	}
	if h%4 == 1 && len(ps) > 0 {
		return " " + sb.String() + " "
	}
	return sb.String()
}

type c04File struct {
	path     string
	content  []byte
	oid      string
	pointer  []byte // the committed blob
	mutation string
	before   []byte // working file bytes before the command (nil = absent)
	mode     os.FileMode
}

func c04Scenario(c *Ctx, idx int, r *Rng) (mlines, mimpl, mcase []string) {
	base := filepath.Join(c.Work, fmt.Sprintf("c04-%d", idx))
	if os.Getenv("VERIF_KEEP") == "" {
		defer os.RemoveAll(base)
	}
	os.MkdirAll(base, 0o755)
	srv := newLfsServer()
	defer srv.srv.Close()
	remote := filepath.Join(base, "remote.git")
	runIn(base, nil, "git", "init", "-q", "--bare", remote)
	o, err := newScenRepo(c, filepath.Join(base, "o"), srv)
	if err != nil {
		c.R.Add(Finding{Kind: "diff", What: "scenario setup: " + err.Error(), Broken: "corr.C04.scenario"})
		return
	}
	var steps []string
	log := func(f string, a ...interface{}) { steps = append(steps, fmt.Sprintf(f, a...)) }
	o.git("remote", "add", "origin", remote)
	o.write(".gitattributes", []byte("*.bin filter=lfs diff=lfs merge=lfs -text\n*.dat filter=lfs -text\n"))
	names := []string{"a.bin", "b.bin", "dir/c.bin", "dir/sub/e.bin", "d.dat", "dir/f.dat", "dup.bin", "plain.txt"}
	var shared []byte
	written := map[string][]byte{}
	writeAll := func(gen int) {
		for _, nme := range names {
			if r.Chance(25) && gen > 0 {
				continue
			}
			// 128: an object exactly as long as its own pointer file (3-digit size, no extensions)
			b := r.Bytes(Pick(r, []int{1, 30, 128, 128, 127, 129, 1023, 1024, 1500, 5000}))
			if nme == "dup.bin" && shared != nil {
				b = shared
			}
			if nme == "a.bin" {
				shared = b
			}
			if nme == "dir/f.dat" && r.Chance(20) {
				b = []byte{} // an empty LFS file
			}
			o.write(nme, b)
			written[nme] = b
		}
		o.git("add", "-A")
		// some pointers are committed in a non-canonical but valid spelling (written by older clients or other
		// tools): legacy version lines, no final newline, CRLF — the smallest of them are shorter than any
		// pointer the current writer produces
		for _, nme := range names {
			b := written[nme]
			if len(b) == 0 || !(strings.HasSuffix(nme, ".bin") || strings.HasSuffix(nme, ".dat")) || !r.Chance(15) {
				continue
			}
			canon := string(canonicalPointer(sha(b), int64(len(b))))
			variant := Pick(r, []string{
				strings.Replace(canon, "https://git-lfs.github.com/spec/v1", "https://hawser.github.com/spec/v1", 1),
				strings.Replace(canon, "https://git-lfs.github.com/spec/v1", "http://git-media.io/v/2", 1),
				strings.TrimSuffix(canon, "\n"),
				strings.ReplaceAll(canon, "\n", "\r\n")})
			blob, code := runInStdin(o.dir, variant, "git", "hash-object", "-w", "--stdin", "--no-filters")
			if code == 0 {
				o.git("update-index", "--cacheinfo", "100644,"+strings.TrimSpace(blob)+","+nme)
				log("commit %s as a non-canonical pointer (%d bytes)", nme, len(variant))
				c.R.Count("committed.non-canonical-pointer")
			}
		}
		o.git("commit", "-qm", fmt.Sprintf("c%d", gen))
	}
	writeAll(0)
	o.git("tag", "v0")
	ncommits := r.Intn(3)
	for g := 1; g <= ncommits; g++ {
		writeAll(g)
	}
	if r.Chance(30) {
		o.git("checkout", "-q", "-b", "side", "v0")
		writeAll(9)
		o.git("checkout", "-q", "master")
	}
	if out, code := o.git("push", "-q", "origin", "--all"); code != 0 {
		c.R.Add(Finding{Kind: "diff", What: "scenario setup: push failed: " + clip(out, 200), Broken: "corr.C04.scenario"})
		return
	}
	o.git("push", "-q", "origin", "--tags")
	// ---- the clone under test
	cmdKind := Pick(r, []string{"fetch", "fetch", "pull", "pull", "pull", "checkout", "checkout", "clone-smudge", "git-checkout-smudge", "git-checkout-smudge", "git-checkout-smudge", "fetch-all"})
	ref := Pick(r, []string{"master", "master", "v0", "side"})
	if ref == "side" {
		if _, code := o.git("rev-parse", "--verify", "-q", "side"); code != 0 {
			ref = "master"
		}
	}
	var inc, exc []c04Pat
	switch r.Intn(6) {
	case 0:
		inc = []c04Pat{Pick(r, c04Pats)}
	case 1:
		exc = []c04Pat{Pick(r, c04Pats)}
	case 2:
		inc = []c04Pat{Pick(r, c04Pats), Pick(r, c04Pats)}
		exc = []c04Pat{Pick(r, c04Pats)}
	}
	viaConfig := r.Bool() || cmdKind == "git-checkout-smudge"
	cl := &scenRepo{dir: filepath.Join(base, "cl"), lfs: c.Lfs, env: append([]string(nil), o.env...)}
	cloneArgs := []string{"clone", "-q", "-c", "lfs.url=" + srv.srv.URL, "-c", "lfs.transfer.maxretries=1", "-c", "lfs.transfer.maxretrydelay=0"}
	cfgInc := func(args []string) []string {
		if len(inc) > 0 {
			args = append(args, "-c", "lfs.fetchinclude="+patTexts(inc))
		}
		if len(exc) > 0 {
			args = append(args, "-c", "lfs.fetchexclude="+patTexts(exc))
		}
		return args
	}
	skipEnv := []string{"GIT_LFS_SKIP_SMUDGE=1"}
	cloneEnv := append(append([]string(nil), o.env...), skipEnv...)
	if cmdKind == "clone-smudge" {
		cloneEnv = o.env
		cloneArgs = cfgInc(cloneArgs)
		viaConfig = true
	}
	// the global config of the scenario repo has no filter.lfs.*: install them for the clone
	gcfg := ""
	for _, e := range o.env {
		if strings.HasPrefix(e, "GIT_CONFIG_GLOBAL=") {
			gcfg = strings.TrimPrefix(e, "GIT_CONFIG_GLOBAL=")
		}
	}
	runIn(base, o.env, "git", "config", "--file", gcfg, "filter.lfs.clean", "git-lfs clean -- %f")
	runIn(base, o.env, "git", "config", "--file", gcfg, "filter.lfs.smudge", "git-lfs smudge -- %f")
	runIn(base, o.env, "git", "config", "--file", gcfg, "filter.lfs.process", "git-lfs filter-process")
	runIn(base, o.env, "git", "config", "--file", gcfg, "filter.lfs.required", "true")
	cloneArgs = append(cloneArgs, "-b", ref, remote, cl.dir)
	out, code := runIn(base, cloneEnv, "git", cloneArgs...)
	log("%s git %s -> %d", map[bool]string{true: "", false: "SKIP_SMUDGE"}[cmdKind == "clone-smudge"], strings.Join(cloneArgs[1:len(cloneArgs)-2], " "), code)
	cas := func() string {
		return fmt.Sprintf("C04 scen seed=%d idx=%d cmd=%s ref=%s include=[%s] exclude=[%s] viaConfig=%v steps=%s", c.Seed, idx, cmdKind, ref, patTexts(inc), patTexts(exc), viaConfig, strings.Join(steps, " ; "))
	}
	fail := func(what, impl string) {
		c.R.Add(Finding{Kind: "oracle", What: what, Case: clip(cas(), 2500), Impl: clip(impl, 600)})
	}
	if code != 0 {
		if cmdKind == "clone-smudge" {
			fail("`git clone` with the smudge filter failed although the server holds every object", out)
		}
		return
	}
	// the LFS files of the checked-out commit
	var files []*c04File
	for _, tp := range pointersAt(cl.dir, cl.env, "HEAD") {
		f := &c04File{path: tp.Path, oid: tp.Oid}
		srv.mu.Lock()
		f.content = srv.objs[tp.Oid]
		srv.mu.Unlock()
		blob, _ := cl.git("cat-file", "blob", tp.Blob)
		f.pointer = []byte(blob)
		files = append(files, f)
	}
	if len(files) == 0 {
		return
	}
	objPresent := func(oid string) bool {
		b, err := os.ReadFile(cl.objectPath(oid))
		return err == nil && sha(b) == oid
	}
	if cmdKind == "clone-smudge" {
		for _, f := range files {
			got, _ := os.ReadFile(filepath.Join(cl.dir, f.path))
			if c04Allowed(inc, exc, f.path) {
				if !bytes.Equal(got, f.content) {
					fail("after `git clone` an LFS file selected by the include/exclude settings does not have the original bytes", fmt.Sprintf("%s: %d bytes, want %d (sha %s)", f.path, len(got), len(f.content), f.oid[:12]))
				}
				if !objPresent(f.oid) {
					fail("after `git clone` a selected LFS file has no hash-valid object in local storage", f.path)
				}
			} else if !c04SamePointer(got, f) {
				fail("after `git clone` an excluded LFS file is not the committed pointer", fmt.Sprintf("%s: %q", f.path, clip(string(got), 120)))
			}
		}
		c.R.Eval(cas(), true)
		c.R.Count("cmd.clone-smudge")
		return
	}
	// ---- objects already local or in a reference store
	refstore := filepath.Join(base, "refstore")
	usedRef := false
	localBefore := map[string]bool{}
	seenOid := map[string]bool{}
	for _, f := range files {
		if seenOid[f.oid] || len(f.content) == 0 {
			continue
		}
		seenOid[f.oid] = true
		k := r.Intn(5)
		if cmdKind == "git-checkout-smudge" {
			k = r.Intn(3) // the smudge filter with the object already at hand: the case its skip / exclude logic must still decide
		}
		switch k {
		case 0:
			p := cl.objectPath(f.oid)
			os.MkdirAll(filepath.Dir(p), 0o755)
			os.WriteFile(p, f.content, 0o644)
			localBefore[f.oid] = true
			log("local %s", f.oid[:8])
		case 1:
			p := filepath.Join(refstore, "lfs", "objects", f.oid[0:2], f.oid[2:4], f.oid)
			os.MkdirAll(filepath.Dir(p), 0o755)
			os.WriteFile(p, f.content, 0o644)
			usedRef = true
			localBefore[f.oid] = true
			log("refstore %s", f.oid[:8])
		}
	}
	if usedRef {
		os.MkdirAll(filepath.Join(refstore, "objects"), 0o755)
		os.MkdirAll(filepath.Join(cl.dir, ".git", "objects", "info"), 0o755)
		os.WriteFile(filepath.Join(cl.dir, ".git", "objects", "info", "alternates"), []byte(filepath.Join(refstore, "objects")+"\n"), 0o644)
	}
	// where each side of the selection comes from: -I replaces only lfs.fetchinclude, -X only
	// lfs.fetchexclude; the other side keeps coming from the configuration
	incViaConfig, excViaConfig := viaConfig, viaConfig
	if !viaConfig && (cmdKind == "fetch" || cmdKind == "pull") && r.Chance(60) {
		// both sides present and overlapping, one from the command line and one from the configuration
		if len(inc) == 0 {
			inc = []c04Pat{Pick(r, []c04Pat{c04Pats[0], c04Pats[1], c04Pats[2]})}
		}
		if len(exc) == 0 {
			exc = []c04Pat{Pick(r, []c04Pat{c04Pats[2], c04Pats[4], c04Pats[5], c04Pats[7]})}
		}
		if r.Bool() {
			incViaConfig = true
		} else {
			excViaConfig = true
		}
		c.R.Count("selection.mixed-flag-and-config")
	}
	if incViaConfig && len(inc) > 0 {
		cl.git("config", "lfs.fetchinclude", patTexts(inc))
	}
	if excViaConfig && len(exc) > 0 {
		cl.git("config", "lfs.fetchexclude", patTexts(exc))
	}
	log("include via %s, exclude via %s", map[bool]string{true: "config", false: "flag"}[incViaConfig], map[bool]string{true: "config", false: "flag"}[excViaConfig])
	// ---- local working-tree states
	mutates := cmdKind == "pull" || cmdKind == "checkout"
	fromSub := mutates && r.Chance(35) // the command will be run from a sub-directory of the work tree
	for fi, f := range files {
		wp := filepath.Join(cl.dir, f.path)
		f.mutation = "none"
		if fromSub && fi == 0 && len(f.content) > 0 {
			f.mutation = "git-rm" // directed: a staged deletion and a command run from below the top (D82)
		} else if mutates && r.Chance(55) {
			f.mutation = Pick(r, []string{"edited", "edited-short", "emptied", "deleted", "git-rm", "other-pointer", "other-pointer-unknown", "same-oid-crlf", "same-oid-legacy", "same-oid-extra-line", "long-lookalike", "read-only", "truncated-pointer", "pointer-plus-space"})
		}
		switch f.mutation {
		case "edited":
			os.WriteFile(wp, r.Bytes(Pick(r, []int{200, 1023, 1024, 3000})), 0o644)
		case "edited-short":
			os.WriteFile(wp, []byte("my local notes\n"), 0o644)
		case "emptied":
			os.WriteFile(wp, nil, 0o644)
		case "deleted":
			os.Remove(wp)
		case "git-rm":
			cl.git("rm", "-q", "--cached", f.path)
			os.Remove(wp)
		case "other-pointer":
			other := files[r.Intn(len(files))]
			if other.oid == f.oid {
				f.mutation = "none"
			} else {
				os.WriteFile(wp, other.pointer, 0o644)
			}
		case "other-pointer-unknown":
			os.WriteFile(wp, canonicalPointer(sha(r.Bytes(9)), 77), 0o644)
		case "same-oid-crlf":
			os.WriteFile(wp, bytes.ReplaceAll(f.pointer, []byte("\n"), []byte("\r\n")), 0o644)
		case "same-oid-legacy":
			os.WriteFile(wp, bytes.Replace(f.pointer, []byte("https://git-lfs.github.com/spec/v1"), []byte("https://hawser.github.com/spec/v1"), 1), 0o644)
		case "same-oid-extra-line":
			os.WriteFile(wp, append(append([]byte(nil), f.pointer...), '\n'), 0o644)
		case "long-lookalike":
			b := append([]byte(nil), f.pointer...)
			for len(b) < 1024+r.Intn(50) {
				b = append(b, ' ')
			}
			os.WriteFile(wp, append(b, []byte("tail")...), 0o644)
		case "read-only":
			os.Chmod(wp, 0o444)
		case "truncated-pointer":
			os.WriteFile(wp, f.pointer[:len(f.pointer)/2], 0o644)
		case "pointer-plus-space":
			os.WriteFile(wp, append([]byte("  \n"), f.pointer...), 0o644)
		}
		if b, err := os.ReadFile(wp); err == nil {
			f.before = b
			if b == nil {
				f.before = []byte{}
			}
			fi, _ := os.Stat(wp)
			f.mode = fi.Mode().Perm()
		}
		if f.mutation != "none" {
			log("%s: %s", f.path, f.mutation)
			c.R.Count("mutation." + f.mutation)
		}
	}
	if mutates && r.Chance(35) {
		// a whole directory is gone from the work tree (rm -rf assets): its files are missing AND there is
		// no directory to put them back into
		var dirs []string
		seen := map[string]bool{}
		for _, f := range files {
			if d := filepath.Dir(f.path); d != "." && !seen[d] {
				seen[d] = true
				dirs = append(dirs, d)
			}
		}
		if len(dirs) > 0 {
			sort.Strings(dirs)
			top := strings.SplitN(Pick(r, dirs), "/", 2)[0]
			os.RemoveAll(filepath.Join(cl.dir, top))
			for _, f := range files {
				if strings.HasPrefix(f.path, top+"/") && f.mutation != "git-rm" {
					f.mutation = "deleted"
					f.before = nil
				}
			}
			log("rm -rf %s", top)
			c.R.Count("mutation.directory-removed")
		}
	}
	// a server that answers the download of one object with neither an action nor an error: the object cannot be
	// had, so a fetch or pull that needs it must not end as a success (D83)
	noActionSet := false
	if (cmdKind == "fetch" || cmdKind == "pull" || cmdKind == "fetch-all") && r.Chance(10) {
		for _, f := range files {
			if len(f.content) > 0 && !objPresent(f.oid) {
				srv.mu.Lock()
				if srv.noAction == nil {
					srv.noAction = map[string]bool{}
				}
				srv.noAction[f.oid] = true
				srv.mu.Unlock()
				noActionSet = true
				log("the server answers the download of %s (%s) without an action", f.path, f.oid[:8])
				c.R.Count("server.download-without-action")
				break
			}
		}
	}
	// ---- the command
	var args []string
	var coArgs []c04Pat
	switch cmdKind {
	case "fetch", "pull":
		args = []string{cmdKind}
		if !incViaConfig && len(inc) > 0 {
			args = append(args, "-I", patTexts(inc))
		}
		if !excViaConfig && len(exc) > 0 {
			args = append(args, "-X", patTexts(exc))
		}
	case "fetch-all":
		args = []string{"fetch", "--all"}
		inc, exc = nil, nil // --all ignores include/exclude arguments; config filters were not set (viaConfig args only)
		if viaConfig {
			cl.git("config", "--unset", "lfs.fetchinclude")
			cl.git("config", "--unset", "lfs.fetchexclude")
		}
	case "checkout":
		args = []string{"checkout"}
		if r.Chance(40) {
			coArgs = []c04Pat{Pick(r, []c04Pat{c04Pats[2], c04Pats[7], {"b.bin", func(p string) bool { return p == "b.bin" }}})}
			args = append(args, coArgs[0].text)
		}
	case "git-checkout-smudge":
		// real `git checkout` of another ref with the smudge filter active (config filters apply)
	}
	var cout string
	var ccode int
	changedSinceV0 := map[string]bool{}
	skipBack := false
	if cmdKind == "git-checkout-smudge" {
		dout, _ := cl.git("diff", "--name-only", "v0", ref)
		for _, l := range strings.Split(dout, "\n") {
			changedSinceV0[strings.TrimSpace(l)] = true
		}
		// move to v0 with skip-smudge, then back to <ref> with smudging: the files changed between the two are smudged
		// -f: a file committed as a non-canonical pointer counts as modified right after a skip-smudge clone
		// (the filter writes the canonical spelling), and a plain checkout would refuse to leave the commit
		runIn(cl.dir, append(append([]string(nil), cl.env...), skipEnv...), "git", "checkout", "-q", "-f", "v0")
		if skipBack = r.Chance(35); skipBack {
			// … and back with smudging SKIPPED: whatever is already in local storage or a reference store,
			// every rewritten file stays the pointer
			cout, ccode = runIn(cl.dir, append(append([]string(nil), cl.env...), skipEnv...), "git", "checkout", "-q", "-f", ref)
			log("git checkout v0 (skip) ; GIT_LFS_SKIP_SMUDGE=1 git checkout -f %s -> %d", ref, ccode)
			c.R.Count("cmd.git-checkout-skip-smudge")
		} else {
			cout, ccode = cl.git("checkout", "-q", "-f", ref)
			log("git checkout v0 (skip) ; git checkout -f %s -> %d", ref, ccode)
		}
	} else {
		if fromSub && len(coArgs) == 0 {
			// the same command from a sub-directory of the work tree: what it does to the files must not
			// depend on where it is run (D82: staged deletions were only honoured from the top)
			sd := filepath.Join(cl.dir, "somewhere", "below")
			os.MkdirAll(sd, 0o755)
			cout, ccode = runIn(sd, cl.env, cl.lfs, args...)
			log("(in somewhere/below) git lfs %s -> %d", strings.Join(args, " "), ccode)
			c.R.Count("cmd.from-subdirectory")
		} else {
			cout, ccode = cl.runLfs(args...)
			log("git lfs %s -> %d", strings.Join(args, " "), ccode)
		}
	}
	c.R.Count("cmd." + cmdKind)
	c.R.Eval(cas(), true)
	if ccode != 0 && !noActionSet {
		fail("the command failed although the server holds every object and local storage was intact", clip(cout, 400))
	}
	// ---- judgement per path
	for _, f := range files {
		wp := filepath.Join(cl.dir, f.path)
		after, aerr := os.ReadFile(wp)
		allowed := c04Allowed(inc, exc, f.path)
		switch cmdKind {
		case "fetch", "fetch-all":
			if (aerr != nil) != (f.before == nil) || !bytes.Equal(after, f.before) {
				fail("`git lfs fetch` changed a working-tree file", f.path)
			}
			if allowed && len(f.content) > 0 && ccode == 0 && !objPresent(f.oid) {
				fail("after a successful fetch a selected LFS file has no hash-valid object in local storage", fmt.Sprintf("%s (%s)", f.path, f.oid[:12]))
			}
		case "git-checkout-smudge":
			if ccode != 0 || !changedSinceV0[f.path] {
				continue // git only rewrites (and smudges) the paths that differ between the two commits
			}
			if allowed && !skipBack {
				if !bytes.Equal(after, f.content) {
					fail("after `git checkout` with the smudge filter a selected LFS file does not have the original bytes", fmt.Sprintf("%s: %d bytes want %d: %q | checkout said: %s", f.path, len(after), len(f.content), clip(string(after), 140), clip(cout, 300)))
				}
			} else if !c04SamePointer(after, f) {
				if localBefore[f.oid] {
					c.R.Count("excluded-or-skipped.object-was-local")
				}
				fail("after `git checkout` an excluded or skipped LFS file is not the committed pointer", fmt.Sprintf("%s: %d bytes (object already local or in a reference store: %v, skip-smudge: %v)", f.path, len(after), localBefore[f.oid], skipBack))
			} else if localBefore[f.oid] {
				c.R.Count("excluded-or-skipped.object-was-local")
			}
		case "pull", "checkout":
			selected := allowed
			if cmdKind == "checkout" {
				selected = len(coArgs) == 0 || coArgs[0].match(f.path)
			}
			// direct oracle: content that is not the recorded pointer is never modified
			userContent := map[string]bool{"edited": true, "edited-short": true, "emptied": true, "other-pointer": true, "other-pointer-unknown": true, "long-lookalike": true, "truncated-pointer": true}[f.mutation]
			if len(f.content) == 0 && f.mutation == "emptied" {
				userContent = false // the recorded pointer IS the empty pointer
			}
			if userContent && (aerr != nil || !bytes.Equal(after, f.before)) {
				fail(fmt.Sprintf("`git lfs %s` modified a working-tree file whose content was not the pointer recorded for it (%s)", cmdKind, f.mutation), fmt.Sprintf("%s: before %d bytes %q after %d bytes %q", f.path, len(f.before), clip(string(f.before), 60), len(after), clip(string(after), 60)))
			}
			if f.mutation == "git-rm" && aerr == nil {
				fail(fmt.Sprintf("`git lfs %s` re-created a file whose deletion is staged in the index", cmdKind), f.path)
			}
			if !selected {
				if (aerr != nil) != (f.before == nil) || !bytes.Equal(after, f.before) {
					fail(fmt.Sprintf("`git lfs %s` changed a file that the include/exclude settings (or path arguments) do not select", cmdKind), f.path)
				}
				continue
			}
			localNow := localBefore[f.oid] || cmdKind == "pull"
			if len(f.content) == 0 {
				continue // empty objects: nothing to transfer, the pointer is the empty file
			}
			// materialisation: an untouched pointer / a missing file becomes the original bytes
			if ccode == 0 && localNow && (f.mutation == "none" || f.mutation == "deleted" || f.mutation == "read-only") {
				if !bytes.Equal(after, f.content) {
					fail(fmt.Sprintf("after `git lfs %s` a selected LFS file does not have the original bytes", cmdKind), fmt.Sprintf("%s (%s): %d bytes want %d", f.path, f.mutation, len(after), len(f.content)))
				}
			}
			// whatever the working-tree file holds — the user's edit, another version's pointer — a pull is a fetch
			// first: the object recorded for the selected path is in local storage afterwards
			if cmdKind == "pull" && ccode == 0 && f.mutation != "git-rm" && !objPresent(f.oid) {
				fail("after `git lfs pull` a selected LFS file has no hash-valid object in local storage", fmt.Sprintf("%s (working-tree state: %s)", f.path, f.mutation))
			}
			if f.mutation == "read-only" && aerr == nil {
				if fi, err := os.Stat(wp); err == nil && fi.Mode().Perm() != f.mode {
					fail("a read-only working file changed its permission bits", fmt.Sprintf("%s: %o -> %o", f.path, f.mode, fi.Mode().Perm()))
				}
			}
			// model line — not for a pull that FAILED because the server would not hand out one object: which files it
			// still materialised before giving up is not what Co.run describes
			if noActionSet && ccode != 0 {
				continue
			}
			state := "a0"
			if f.mutation == "git-rm" {
				state = "a1"
			} else if f.before != nil {
				state = "f" + hx(f.before)
			}
			loc := "0"
			if localNow {
				loc = "1"
			}
			line := fmt.Sprintf("C04 run %s %d %s %s", hx([]byte(f.oid)), len(f.content), loc, state)
			got := "absent"
			if aerr == nil {
				switch {
				case f.before != nil && bytes.Equal(after, f.before) && !(bytes.Equal(after, f.content)):
					got = "keep"
				case bytes.Equal(after, f.content):
					got = "content"
					if f.before != nil && bytes.Equal(f.before, f.content) {
						got = "keep"
					}
				default:
					got = "pointer:" + hx(after)
				}
			}
			mlines = append(mlines, line)
			mimpl = append(mimpl, got)
			mcase = append(mcase, fmt.Sprintf("%s | path=%s mutation=%s", clip(cas(), 1500), f.path, f.mutation))
		}
	}
	if idx%12 == 0 {
		c.R.Sample(map[string]interface{}{"cmd": cmdKind, "ref": ref, "include": patTexts(inc), "exclude": patTexts(exc), "steps": steps})
	}
	return
}

func c04(c *Ctx) {
	r := NewRng(c.Seed ^ 0xC04)
	c.R.Rule = "cases = (A) Filter.Allows over table-driven pattern stubs (0-3 include / exclude patterns, default value) vs the model; (B) scenarios: history of 1-4 commits (+tag, +branch) over 7 LFS paths incl. duplicates, empty files and nested directories, pushed to a bare remote + fake LFS server, cloned at a branch/tag with smudging skipped; any subset of objects pre-populated locally or in a reference store; include/exclude patterns (config or -I/-X); working files edited / emptied / deleted / git-rm'ed / replaced by other pointers / same-oid non-canonical pointers / >=1024-byte look-alikes / truncated pointers / read-only; then one of fetch, fetch --all, pull, checkout [path], clone with smudge, git checkout with smudge; every path judged (materialised, excluded stays pointer, user content untouched) and compared with the model's `run`; non-trivial = every scenario / Allows case with >= 1 pattern"
	c04Allows(c, r.Fork())
	n := c.N(70, 1500)
	var wg sync.WaitGroup
	sem := make(chan struct{}, 10)
	var mu sync.Mutex
	var lines, impl, cases []string
	for i := 0; i < n; i++ {
		rs := r.Fork()
		wg.Add(1)
		sem <- struct{}{}
		go func(i int, rs *Rng) {
			defer wg.Done()
			defer func() { <-sem }()
			defer func() {
				if x := recover(); x != nil {
					c.R.Add(Finding{Kind: "diff", What: fmt.Sprintf("scenario harness problem: %v", x), Broken: "corr.C04.scenario"})
				}
			}()
			if only := os.Getenv("VERIF_ONLY_IDX"); only != "" && only != fmt.Sprint(i) {
				return // debugging aid: run one scenario of the sequence
			}
			l, m, cs := c04Scenario(c, i, rs)
			mu.Lock()
			lines = append(lines, l...)
			impl = append(impl, m...)
			cases = append(cases, cs...)
			mu.Unlock()
		}(i, rs)
	}
	wg.Wait()
	// deterministic order for the oracle
	idx := make([]int, len(lines))
	for i := range idx {
		idx[i] = i
	}
	sort.Slice(idx, func(a, b int) bool { return cases[idx[a]] < cases[idx[b]] })
	var ql []string
	for _, i := range idx {
		ql = append(ql, lines[i])
	}
	ans, err := c.Or.Ask(ql)
	if err != nil {
		c.R.Add(Finding{Kind: "diff", What: "oracle process failed: " + err.Error(), Broken: "corr.C04.run"})
		return
	}
	for k, i := range idx {
		c.R.Count("run." + strings.SplitN(impl[i], ":", 2)[0])
		if ans[k] != impl[i] {
			c.R.Add(Finding{Kind: "diff", What: "singleCheckout.Run: the working file after pull/checkout differs from the model's", Case: clip(cases[i], 2500), Impl: clip(impl[i], 300), Model: clip(ans[k], 300) + " <= " + clip(lines[i], 200), Broken: "corr.C04.run"})
		}
	}
	c04CheckoutTo(c, r.Fork())
	c04ExtPointer(c, r.Fork())
	c04PathLists(c, r.Fork())
}

// c04PathLists: tools.CleanPaths (the parser of lfs.fetchinclude / lfs.fetchexclude / -I / -X) against
// PathList.cleanPaths on generated lists: elements with blanks (and tabs, newlines) before and after,
// empty elements, trailing slashes and backslashes (one or two), lists of blanks only.
func c04PathLists(c *Ctx, r *Rng) {
	n := c.N(400, 6000)
	var lines, impl, cases []string
	elems := []string{"a", "*.bin", "dir", "dir/", "dir//", "d\\", "a b", "x/y/*.dat", "", ".", "/abs", "é.bin", "-", "**/z"}
	pads := []string{"", "", " ", "  ", "\t", " \n", "\r", "\v\f"}
	for i := 0; i < n; i++ {
		var sb strings.Builder
		k := r.Intn(5)
		if r.Chance(10) {
			k = 0
		}
		sb.WriteString(Pick(r, pads))
		for j := 0; j < k; j++ {
			if j > 0 {
				sb.WriteString(",")
			}
			sb.WriteString(Pick(r, pads))
			if r.Chance(15) {
				sb.WriteString(string(r.Bytes(1 + r.Intn(3))))
			} else {
				sb.WriteString(Pick(r, elems))
			}
			sb.WriteString(Pick(r, pads))
		}
		sb.WriteString(Pick(r, pads))
		in := sb.String()
		if !c04AsciiSpaceOnly(in) {
			continue
		}
		got := tools.CleanPaths(in, ",")
		var hs []string
		for _, g := range got {
			hs = append(hs, hexOrDash(g))
		}
		im := "none"
		if len(got) > 0 {
			im = strings.Join(hs, ",")
		}
		lines = append(lines, "C04 paths "+hexOrDash(in))
		impl = append(impl, im)
		cases = append(cases, fmt.Sprintf("C04 paths seed=%d idx=%d list=%q", c.Seed, i, in))
		c.R.Count(fmt.Sprintf("paths.elements.%d", len(got)))
		c.R.Eval(cases[len(cases)-1], len(got) > 1 && strings.ContainsAny(in, " \t"))
		// direct: no element begins or ends with white space, and a list of blanks only is empty
		for _, g := range got {
			if g != strings.TrimSpace(g) {
				c.R.Add(Finding{Kind: "oracle", What: "an element of an include/exclude list keeps the blanks written around its comma: it is matched as a pattern nobody spelt", Case: cases[len(cases)-1], Impl: fmt.Sprintf("%q", got)})
				break
			}
		}
	}
	ans, err := c.Or.Ask(lines)
	if err != nil {
		c.R.Add(Finding{Kind: "diff", What: "oracle process failed: " + err.Error(), Broken: "corr.C04.paths"})
		return
	}
	for i := range lines {
		if ans[i] != impl[i] {
			c.R.Add(Finding{Kind: "diff", What: "tools.CleanPaths: the list of patterns differs from the model's", Case: cases[i], Impl: impl[i], Model: ans[i], Broken: "corr.C04.paths"})
		}
	}
}

// the model knows the ASCII white space only; strings.TrimSpace also trims U+0085, U+00A0 and the other
// Unicode spaces, which the generator's random bytes could spell
func c04AsciiSpaceOnly(s string) bool {
	for _, ru := range s {
		if ru > 127 && unicode.IsSpace(ru) {
			return false
		}
	}
	return true
}

// c04CheckoutTo: `git lfs checkout --to <file> --ours|--theirs|--base <path>` during a conflicted merge —
// smudging into a NAMED file over whatever already sits there {no file, the same bytes, other bytes of the
// same length, shorter, longer}.
// c04ExtPointer: pointers that name a pointer EXTENSION this client has no configuration for (the repository
// was written with `lfs.extension.<name>` set up elsewhere). Such a file cannot be smudged here; whatever
// pull / checkout report, the working file must stay a valid spelling of its pointer (or become the content).
func c04ExtPointer(c *Ctx, r *Rng) {
	n := c.N(10, 200)
	for i := 0; i < n; i++ {
		base := filepath.Join(c.Work, fmt.Sprintf("c04x-%d", i))
		srv := newLfsServer()
		w, err := newScenRepo(c, filepath.Join(base, "w"), srv)
		if err != nil {
			srv.srv.Close()
			continue
		}
		content := r.Bytes(Pick(r, []int{40, 3000}))
		plain := r.Bytes(500)
		oid := sha(content)
		srv.mu.Lock()
		srv.objs[oid], srv.objs[sha(plain)] = content, plain
		srv.mu.Unlock()
		ptr := fmt.Sprintf("version https://git-lfs.github.com/spec/v1\next-0-%s sha256:%s\noid sha256:%s\nsize %d\n", Pick(r, []string{"foo", "zip"}), sha(r.Bytes(8)), oid, len(content))
		w.write(".gitattributes", []byte("*.bin filter=lfs -text\n"))
		w.write("ext.bin", []byte(ptr))
		w.write("plain.bin", canonicalPointer(sha(plain), int64(len(plain))))
		w.gitEnv([]string{"GIT_LFS_SKIP_SMUDGE=1"}, "add", "-A")
		w.git("commit", "-qm", "pointers")
		local := r.Bool()
		if local {
			p := w.objectPath(oid)
			os.MkdirAll(filepath.Dir(p), 0o755)
			os.WriteFile(p, content, 0o644)
		}
		if r.Chance(30) {
			os.Remove(filepath.Join(w.dir, "ext.bin"))
		}
		cmd := Pick(r, [][]string{{"pull"}, {"checkout"}, {"checkout", "ext.bin"}})
		out, code := w.runLfs(cmd...)
		after, aerr := os.ReadFile(filepath.Join(w.dir, "ext.bin"))
		enc := fmt.Sprintf("C04 ext-pointer seed=%d idx=%d object-local=%v cmd=%s", c.Seed, i, local, strings.Join(cmd, " "))
		c.R.Eval(enc, true)
		c.R.Count("ext-pointer")
		okPtr := false
		if p, ok := isPointerText(after); ok && p.Oid == oid {
			okPtr = true
		}
		if aerr == nil && !okPtr && !bytes.Equal(after, content) {
			c.R.Add(Finding{Kind: "oracle", What: "`git lfs " + cmd[0] + "` left a working file that is neither a valid pointer for its object nor the object's bytes", Case: enc,
				Impl: fmt.Sprintf("ext.bin: %d bytes %q; exit %d: %s", len(after), clip(string(after), 60), code, clip(out, 200))})
		}
		if b, err := os.ReadFile(filepath.Join(w.dir, "plain.bin")); cmd[0] == "pull" && (err != nil || !bytes.Equal(b, plain)) && code == 0 {
			c.R.Add(Finding{Kind: "oracle", What: "`git lfs " + cmd[0] + "` exited 0 but an ordinary LFS file beside a pointer with an unknown extension was not materialised", Case: enc, Impl: clip(out, 200)})
		}
		srv.srv.Close()
		os.RemoveAll(base)
		os.Remove(base + "/w.gitconfig")
	}
}

// c04SamePointer: the bytes are the committed pointer, or (the smudge filter re-encodes a pointer it passes
// on) another valid spelling of the same pointer: same object id, same size
func c04SamePointer(b []byte, f *c04File) bool {
	if bytes.Equal(b, f.pointer) {
		return true
	}
	p, ok := isPointerText(b)
	return ok && p.Oid == f.oid && p.Size == int64(len(f.content))
}

func c04CheckoutTo(c *Ctx, r *Rng) { smudgeToFileCampaign(c, r, "C04") }

func smudgeToFileCampaign(c *Ctx, r *Rng, prop string) {
	n := c.N(16, 300)
	var mlines, mimpl, mcase []string
	for i := 0; i < n; i++ {
		base := filepath.Join(c.Work, fmt.Sprintf("%s-to-%d", prop, i))
		w, err := newScenRepo(c, filepath.Join(base, "w"), nil)
		if err != nil {
			os.RemoveAll(base)
			continue
		}
		for _, e := range w.env {
			if strings.HasPrefix(e, "GIT_CONFIG_GLOBAL=") {
				g := strings.TrimPrefix(e, "GIT_CONFIG_GLOBAL=")
				for k, v := range map[string]string{"filter.lfs.clean": "git-lfs clean -- %f", "filter.lfs.smudge": "git-lfs smudge -- %f", "filter.lfs.process": "git-lfs filter-process", "filter.lfs.required": "true"} {
					runIn(base, w.env, "git", "config", "--file", g, k, v)
				}
			}
		}
		sz := Pick(r, []int{128, 128, 40, 300, 4096, 4096})
		var ver [3][]byte // base, ours, theirs
		for k := range ver {
			ver[k] = r.Bytes(sz + Pick(r, []int{0, 0, 0, 1, -1}))
		}
		w.write(".gitattributes", []byte("*.bin filter=lfs diff=lfs merge=lfs -text\n"))
		w.write("f.bin", ver[0])
		w.git("add", "-A")
		w.git("commit", "-qm", "base")
		w.git("checkout", "-q", "-b", "theirs")
		w.write("f.bin", ver[2])
		w.git("commit", "-qam", "theirs")
		w.git("checkout", "-q", "master")
		w.write("f.bin", ver[1])
		w.git("commit", "-qam", "ours")
		w.git("merge", "-q", "theirs")
		if _, err := os.Stat(filepath.Join(w.dir, ".git", "MERGE_HEAD")); err != nil {
			os.RemoveAll(base)
			continue // no conflict (equal contents)
		}
		for _, side := range []string{"--ours", "--theirs", "--base"} {
			want := map[string][]byte{"--base": ver[0], "--ours": ver[1], "--theirs": ver[2]}[side]
			state := Pick(r, []string{"absent", "same", "same-length", "other-version", "shorter", "longer", "pointer"})
			var old []byte
			has := true
			switch state {
			case "absent":
				has = false
			case "same":
				old = want
			case "same-length":
				old = r.Bytes(len(want))
			case "other-version":
				old = ver[r.Intn(3)]
			case "shorter":
				old = r.Bytes(len(want) / 2)
			case "longer":
				old = r.Bytes(len(want) + 1 + r.Intn(300))
			case "pointer":
				old = canonicalPointer(sha(want), int64(len(want)))
			}
			out := filepath.Join(w.dir, "out"+side+".bin")
			os.Remove(out)
			if has {
				os.WriteFile(out, old, 0o644)
			}
			res, code := w.runLfs("checkout", "--to", filepath.Base(out), side, "f.bin")
			got, gerr := os.ReadFile(out)
			enc := fmt.Sprintf("%s checkout-to seed=%d idx=%d side=%s size=%d out-file=%s(%d bytes)", prop, c.Seed, i, side, len(want), state, len(old))
			c.R.Eval(enc, has)
			c.R.Count("checkout-to." + state)
			if code != 0 || gerr != nil || !bytes.Equal(got, want) {
				c.R.Add(Finding{Kind: "oracle", What: "`git lfs checkout --to` did not leave the requested version's bytes in the named file", Case: enc,
					Impl: fmt.Sprintf("exit %d; file has %d bytes, want %d; %s", code, len(got), len(want), clip(res, 200))})
			}
			st := "a0"
			if has {
				st = "f" + hexOrDash(string(old))
			}
			mlines = append(mlines, fmt.Sprintf("C04 tofile %s %d %s %s", hx([]byte(sha(want))), len(want), hx(want), st))
			mimpl = append(mimpl, hexOrDash(string(got)))
			mcase = append(mcase, enc)
		}
		os.RemoveAll(base)
		os.Remove(base + ".gitconfig")
	}
	ans, err := c.Or.Ask(mlines)
	if err != nil {
		c.R.Add(Finding{Kind: "diff", What: "oracle process failed: " + err.Error(), Broken: "corr." + prop + ".tofile"})
		return
	}
	for i := range mlines {
		if ans[i] != mimpl[i] {
			c.R.Add(Finding{Kind: "diff", What: "SmudgeToFile over an existing file: model and implementation disagree", Case: mcase[i], Impl: clip(mimpl[i], 200), Model: clip(ans[i], 200), Broken: "corr." + prop + ".tofile"})
		}
	}
}

func init() { campaigns["C04"] = c04 }
