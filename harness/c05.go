// C05: prune never deletes an object that is still needed or not yet pushed.
// Scenarios with the real binary and real git: dated histories (branches, merges incl. evil
// resolutions, tags, detached HEAD), partial pushes, stashes, a second worktree, staged files,
// attribute spellings and ambient diff configuration, retention settings, fetchexclude, flags.
// The set that must survive is computed from plumbing only (tree walks, rev-list, ls-files,
// for-each-ref) — never from `git log -p` — and compared with what prune actually deleted.
package main

import (
	"bytes"
	"fmt"
	"os"
	"os/exec"
	"path/filepath"
	"regexp"
	"sort"
	"strings"
	"sync"
	"time"

	"github.com/git-lfs/git-lfs/v3/lfs"
)

var c05Mu sync.Mutex
var c05Lines, c05Impl, c05Case []string

func c05Model(line, impl, cas string) {
	c05Mu.Lock()
	c05Lines = append(c05Lines, line)
	c05Impl = append(c05Impl, impl)
	c05Case = append(c05Case, cas)
	c05Mu.Unlock()
}

// c05LogScan: real `git log` output of the scenario repository through the real parser and the model
func c05LogScan(c *Ctx, w *scenRepo, cas string, r *Rng) {
	variants := [][]string{
		append([]string{"log", "-m", "HEAD", "--branches", "--tags", "--not", "--remotes=origin"}, lfs.VerifLogArgs()...),
		append([]string{"log", "-m", "--all"}, lfs.VerifLogArgs()...),
		// the parser alone, on formats the argument list does not normally let through
		{"-c", "diff.noprefix=true", "log", "--all", "-p", "-U12", "-G", "oid sha256:", "--format=lfs-commit-sha: %H %P"},
		{"-c", "diff.mnemonicprefix=true", "log", "--all", "-p", "-U12", "-G", "oid sha256:", "--format=lfs-commit-sha: %H %P"},
		{"log", "--all", "-p", "-U1", "-G", "oid sha256:", "--format=lfs-commit-sha: %H %P"},
		{"log", "--all", "--cc", "-p", "-U12", "--format=lfs-commit-sha: %H %P"},
	}
	v := variants[r.Intn(len(variants))]
	cmd := exec.Command("git", v...)
	cmd.Dir = w.dir
	cmd.Env = append(os.Environ(), w.env...)
	out, err := cmd.Output()
	if err != nil || len(out) == 0 || len(out) > 200000 {
		return
	}
	for _, dir := range []byte{'+', '-'} {
		names, ptrs := lfs.VerifLogScan(dir, bytes.NewReader(out))
		var parts []string
		for i := range names {
			n := hexOrDash(names[i])
			parts = append(parts, fmt.Sprintf("%s:%s:%d", n, hx([]byte(ptrs[i].Oid)), ptrs[i].Size))
		}
		got := "-"
		if len(parts) > 0 {
			got = strings.Join(parts, ",")
		}
		if bytes.Contains(out, []byte("\\")) {
			continue // C-quoted names: unquoting is outside the model
		}
		c05Model(fmt.Sprintf("C05 logscan %c %s", dir, hx(out)), got, cas+" | git "+strings.Join(v, " "))
		c.R.Count(fmt.Sprintf("logscan.%c", dir))
		c.R.Count(fmt.Sprintf("logscan.pointers.%d", min(len(parts), 9)))
	}
}

var retainRe = regexp.MustCompile(`RETAIN: ([0-9a-f]{64})`)
var verifiedRe = regexp.MustCompile(`\bVERIFIED: ([0-9a-f]{64})`)

type c05Scen struct {
	c     *Ctx
	w     *scenRepo
	srv   *lfsServer
	steps []string
	now   time.Time
	age   float64 // age in days of the next commit
	r     *Rng
}

func (s *c05Scen) log(f string, a ...interface{}) { s.steps = append(s.steps, fmt.Sprintf(f, a...)) }

func (s *c05Scen) dateEnv() []string {
	d := s.now.Add(-time.Duration(s.age * 24 * float64(time.Hour))).Format(time.RFC3339)
	return []string{"GIT_AUTHOR_DATE=" + d, "GIT_COMMITTER_DATE=" + d}
}

func (s *c05Scen) tick() {
	s.age -= Pick(s.r, []float64{0.5, 1.5, 3, 8})
	if s.age < 0.3 {
		s.age = 0.3
	}
}

func (s *c05Scen) commit(dir, msg string) {
	runIn(dir, append(append([]string(nil), s.w.env...), s.dateEnv()...), "git", "add", "-A")
	runIn(dir, append(append([]string(nil), s.w.env...), s.dateEnv()...), "git", "commit", "-qm", msg, "--allow-empty")
	s.tick()
}

// treePtrs: path -> oid of the LFS pointers in a commit's tree
func treePtrs(dir string, env []string, commit string) map[string]string {
	m := map[string]string{}
	for _, tp := range pointersAt(dir, env, commit) {
		m[tp.Path] = tp.Oid
	}
	return m
}

func c05Excluded(pat, path string) bool {
	switch pat {
	case "":
		return false
	case "dir": // gitignore-style: a directory of that name at ANY depth
		return strings.HasPrefix(path, "dir/") || strings.Contains(path, "/dir/")
	case "/dir": // anchored: the top-level directory only
		return strings.HasPrefix(path, "dir/")
	case "*.dat":
		return strings.HasSuffix(path, ".dat")
	}
	return false
}

func c05Scenario(c *Ctx, idx int, r *Rng) {
	base := filepath.Join(c.Work, fmt.Sprintf("c05-%d", idx))
	defer os.RemoveAll(base)
	os.MkdirAll(base, 0o755)
	srv := newLfsServer()
	defer srv.srv.Close()
	remote := filepath.Join(base, "remote.git")
	runIn(base, nil, "git", "init", "-q", "--bare", remote)
	w, err := newScenRepo(c, filepath.Join(base, "w"), srv)
	if err != nil {
		c.R.Add(Finding{Kind: "diff", What: "scenario setup: " + err.Error(), Broken: "corr.C05.scenario"})
		return
	}
	// the clean/smudge filters must be configured for stash/checkout/merge to work on real content
	for _, e := range w.env {
		if strings.HasPrefix(e, "GIT_CONFIG_GLOBAL=") {
			g := strings.TrimPrefix(e, "GIT_CONFIG_GLOBAL=")
			runIn(base, w.env, "git", "config", "--file", g, "filter.lfs.clean", "git-lfs clean -- %f")
			runIn(base, w.env, "git", "config", "--file", g, "filter.lfs.smudge", "git-lfs smudge -- %f")
			runIn(base, w.env, "git", "config", "--file", g, "filter.lfs.process", "git-lfs filter-process")
			runIn(base, w.env, "git", "config", "--file", g, "filter.lfs.required", "true")
		}
	}
	s := &c05Scen{c: c, w: w, srv: srv, now: time.Now(), r: r}
	s.age = Pick(r, []float64{60.5, 25.5, 12.5, 4.5})
	w.git("remote", "add", "origin", remote)
	// a second remote with its own LFS store, named as the remote prune has to check
	// (lfs.pruneremotetocheck): "pushed" and "the remote holds it" are both about THAT remote
	pruneRemote, psrv := "origin", srv
	pushTargets := []string{"origin"}
	if r.Chance(25) {
		srv2 := newLfsServer()
		defer srv2.srv.Close()
		remote2 := filepath.Join(base, "upstream.git")
		runIn(base, nil, "git", "init", "-q", "--bare", remote2)
		w.git("remote", "add", "upstream", remote2)
		w.git("config", "--unset", "lfs.url")
		w.git("config", "remote.origin.lfsurl", srv.srv.URL)
		w.git("config", "remote.upstream.lfsurl", srv2.srv.URL)
		w.git("config", "lfs.pruneremotetocheck", "upstream")
		pruneRemote, psrv = "upstream", srv2
		pushTargets = []string{"origin", "upstream", "upstream"}
		c.R.Count("family.prune-remote-is-not-the-default-remote")
	}
	// ambient configuration
	// ambient user configuration that changes the shape of `git log` / `git diff` output
	ambient := Pick(r, []string{"", "", "", "", "diff.noprefix=true", "diff.mnemonicprefix=true", "log.showroot=false", "log.showroot=false",
		"diff.relative=true", "diff.relative=true", "diff.renames=copies", "core.quotepath=false", "log.showsignature=true",
		"log.diffmerges=combined", "log.diffmerges=first-parent", "diff.orderfile=.gitattributes", "diff.algorithm=histogram", "diff.interhunkcontext=5", "diff.suppressblankempty=true"})
	if ambient != "" {
		kv := strings.SplitN(ambient, "=", 2)
		w.git("config", kv[0], kv[1])
		c.R.Count("ambient." + kv[0])
	}
	pruneCwd := w.dir
	if strings.HasPrefix(ambient, "diff.relative") {
		pruneCwd = filepath.Join(w.dir, "dir") // with diff.relative, where the command runs decides what a diff shows
	}
	attrs := Pick(r, []string{
		"*.bin filter=lfs diff=lfs merge=lfs -text\n*.dat filter=lfs -text\n",
		"*.bin filter=lfs diff=lfs merge=lfs -text\n*.dat filter=lfs -text\n",
		"*.bin filter=lfs -diff\n*.dat filter=lfs binary\n",
		"*.bin filter=lfs diff=lfs merge=lfs -text\n*.dat filter=lfs -diff -text\n"})
	refsDays := Pick(r, []int{-1, -1, 0, 0, 1, 3, 7, 30}) // -1 = unset (default 7)
	commitsDays := Pick(r, []int{-1, -1, 0, 1, 3, 7})  // default 0
	offsetDays := Pick(r, []int{-1, -1, 0, 1, 3, 7})   // default 3
	// directed family "retention windows": everything gets pushed, so only the recent-ref and
	// recent-commit windows (each measured from the tip of ITS ref) decide what survives; several
	// branches left behind at different ages, the same few files rewritten again and again
	windows := r.Chance(25)
	if windows {
		refsDays = Pick(r, []int{7, 30, 30})
		commitsDays = Pick(r, []int{1, 3, 7, 7})
		offsetDays = Pick(r, []int{0, 1, 3})
		s.age = Pick(r, []float64{40.5, 25.5, 14.5})
		c.R.Count("family.retention-windows")
	}
	if refsDays >= 0 {
		w.git("config", "lfs.fetchrecentrefsdays", fmt.Sprint(refsDays))
	} else {
		refsDays = 7
	}
	if commitsDays >= 0 {
		w.git("config", "lfs.fetchrecentcommitsdays", fmt.Sprint(commitsDays))
	} else {
		commitsDays = 0
	}
	if offsetDays >= 0 {
		w.git("config", "lfs.pruneoffsetdays", fmt.Sprint(offsetDays))
	} else {
		offsetDays = 3
	}
	exclude := Pick(r, []string{"", "", "", "dir", "*.dat"})
	if exclude != "" {
		w.git("config", "lfs.fetchexclude", exclude)
	}
	s.log("ambient=%s attrs=%q refsdays=%d commitsdays=%d offset=%d fetchexclude=%s", ambient, attrs, refsDays, commitsDays, offsetDays, exclude)
	w.write(".gitattributes", []byte(attrs))
	rootHasLfs := r.Chance(35)
	files := []string{"a.bin", "b.bin", "dir/c.bin", "d.dat", "dir/e.dat"}
	sizeOf := map[string]int64{}
	newContent := func() []byte {
		b := r.Bytes(Pick(r, []int{20, 300, 2000}))
		sizeOf[sha(b)] = int64(len(b))
		return b
	}
	// a file committed as a pointer written by an early client: one of the older version URLs the decoder still
	// accepts (lfs/pointer.go v1Aliases), the object itself in local storage
	newFile := func() []byte {
		b := newContent()
		if !r.Chance(12) {
			return b
		}
		op := w.objectPath(sha(b))
		os.MkdirAll(filepath.Dir(op), 0o755)
		os.WriteFile(op, b, 0o644)
		c.R.Count("legacy-version-pointer")
		return []byte(fmt.Sprintf("version %s\noid sha256:%s\nsize %d\n", Pick(r, []string{"https://hawser.github.com/spec/v1", "http://git-media.io/v/2"}), sha(b), len(b)))
	}
	if rootHasLfs {
		// the ROOT commit itself introduces LFS files (a repository that started with LFS)
		w.write("a.bin", newContent())
		w.write("dir/c.bin", newContent())
		c.R.Count("root-commit-has-lfs-files")
	}
	s.commit(w.dir, "attrs")
	branches := []string{"master"}
	worktrees := []string{w.dir}
	stashes := 0
	detached := false
	nops := 5 + r.Intn(9)
	if windows {
		files = []string{"a.bin", "dir/c.bin"}
		nops += 4
	}
	for op := 0; op < nops; op++ {
		choice := r.Intn(14)
		if windows {
			choice = Pick(r, []int{0, 0, 0, 0, 4, 5, 5, 7})
		}
		switch choice {
		case 0, 1, 2, 3:
			k := 1 + r.Intn(2)
			for j := 0; j < k; j++ {
				w.write(Pick(r, files), newFile())
			}
			s.commit(w.dir, fmt.Sprintf("c%d", op))
			s.log("commit (age %.1fd)", s.age)
		case 4:
			if !detached {
				b := fmt.Sprintf("br%d", len(branches))
				w.git("checkout", "-q", "-b", b)
				branches = append(branches, b)
				s.log("branch %s", b)
			}
		case 5:
			b := Pick(r, branches)
			if _, code := w.git("checkout", "-q", b); code == 0 {
				detached = false
				s.log("checkout %s", b)
			}
		case 6:
			if !detached && r.Chance(50) {
				// a real merge: diverge first
				cur := w.must("rev-parse", "--abbrev-ref", "HEAD")
				side := fmt.Sprintf("s%d", op)
				w.git("checkout", "-q", "-b", side)
				w.write(Pick(r, files), newFile())
				s.commit(w.dir, "side")
				w.git("checkout", "-q", cur)
				w.write(Pick(r, files), newFile())
				s.commit(w.dir, "main line")
				branches = append(branches, side)
				s.log("diverge %s / %s", cur, side)
			}
			if len(branches) > 1 && !detached {
				b := Pick(r, branches)
				if r.Chance(50) {
					// an "evil" merge: the resolution introduces content that is in neither parent
					w.gitEnv(s.dateEnv(), "merge", "-q", "--no-commit", "--no-ff", "-X", "ours", b)
					if _, err := os.Stat(filepath.Join(w.dir, ".git", "MERGE_HEAD")); err == nil {
						f := Pick(r, files)
						w.write(f, newContent())
						w.gitEnv(s.dateEnv(), "add", "-A")
						w.gitEnv(s.dateEnv(), "commit", "-qm", "evil merge")
						s.tick()
						s.log("evil merge %s (resolution rewrites %s)", b, f)
						c.R.Count("op.evil-merge")
						if r.Chance(60) {
							// the resolution's content is replaced again: now only the merge commit references it
							w.write(f, newContent())
							s.commit(w.dir, "after merge")
							s.log("commit rewriting %s", f)
							c.R.Count("op.evil-merge-overwritten")
						}
					}
				} else {
					w.gitEnv(s.dateEnv(), "merge", "-q", "--no-edit", "--no-ff", "-X", "ours", b)
					s.tick()
					s.log("merge %s", b)
				}
			}
		case 7:
			if r.Bool() {
				w.git("tag", fmt.Sprintf("t%d", op))
			} else {
				w.gitEnv(s.dateEnv(), "tag", "-a", "-m", "x", fmt.Sprintf("t%d", op))
			}
			s.log("tag t%d", op)
		case 8, 9:
			b := Pick(r, branches)
			tgt := Pick(r, pushTargets)
			_, code := w.git("push", "-q", tgt, b)
			s.log("push %s %s -> %d", tgt, b, code)
		case 10:
			w.write(Pick(r, files), newFile())
			args := []string{"stash"}
			if r.Chance(40) {
				w.write("untracked"+fmt.Sprint(op)+".bin", newContent())
				args = append(args, "-u")
			} else if r.Chance(30) {
				w.git("add", "-A")
				w.write(Pick(r, files), newFile()) // index and working tree differ
			}
			if _, code := w.gitEnv(s.dateEnv(), args...); code == 0 {
				stashes++
				s.log("git %s", strings.Join(args, " "))
			}
		case 11:
			if len(worktrees) == 1 && len(branches) > 1 {
				cur := w.must("rev-parse", "--abbrev-ref", "HEAD")
				var other string
				for _, b := range branches {
					if b != cur {
						other = b
					}
				}
				wt := filepath.Join(base, "wt2")
				wtArgs := []string{"worktree", "add", "-q", wt, other}
				detachedWt := r.Chance(40)
				if detachedWt {
					wtArgs = []string{"worktree", "add", "-q", "--detach", wt, other}
				}
				if _, code := w.git(wtArgs...); code == 0 {
					worktrees = append(worktrees, wt)
					s.log("%s", strings.Join(wtArgs, " "))
					if detachedWt && r.Chance(70) {
						// commits made on the other worktree's DETACHED HEAD: reachable from no ref at all
						for k := 0; k < 2; k++ {
							p := filepath.Join(wt, Pick(r, []string{"a.bin", "w.bin"}))
							os.WriteFile(p, newContent(), 0o644)
							s.commit(wt, fmt.Sprintf("wt2 detached %d", k))
						}
						s.log("wt2: two commits on its detached HEAD")
						c.R.Count("worktree.detached-head-commits")
					}
					if r.Bool() {
						p := filepath.Join(wt, Pick(r, files))
						os.MkdirAll(filepath.Dir(p), 0o755)
						os.WriteFile(p, newContent(), 0o644)
						runIn(wt, w.env, "git", "add", "-A")
						s.log("wt2: staged a file")
						if r.Bool() {
							os.WriteFile(p, newContent(), 0o644) // staged, then edited again
							s.log("wt2: edited it again")
						}
					}
				}
			}
		case 12:
			if !detached && r.Chance(60) {
				w.git("checkout", "-q", "--detach")
				detached = true
				s.log("detach HEAD")
			}
		case 13: // retire a file
			w.git("rm", "-q", "--ignore-unmatch", Pick(r, files))
			s.commit(w.dir, "rm")
			s.log("rm")
		}
	}
	if windows && r.Chance(85) {
		for _, tgt := range map[bool][]string{true: {"origin"}, false: {"origin", "upstream"}}[pruneRemote == "origin"] {
			_, code := w.git("push", "-q", tgt, "--all")
			s.log("push %s --all -> %d", tgt, code)
		}
	}
	// final index / working tree state
	switch r.Intn(4) {
	case 0:
		f := Pick(r, files)
		w.write(f, newContent())
		w.git("add", f)
		s.log("staged %s", f)
		switch r.Intn(3) {
		case 0:
			w.write(f, newContent())
			s.log("edited %s again (unstaged)", f)
		case 1:
			os.Remove(filepath.Join(w.dir, f))
			s.log("removed %s from the working tree", f)
		}
	case 1:
		w.write(Pick(r, files), newFile())
		s.log("unstaged edit")
	}
	// ---- server side: which objects does the remote hold?  (objects arrive by push; some get lost)
	flags := Pick(r, [][]string{{}, {}, {}, {"--force"}, {"--recent"}, {"--dry-run"}, {"--dry-run", "--verbose"}, {"--verify-remote"}, {"--verify-remote"}, {"--verify-remote", "--verify-unreachable"}, {"--verify-remote", "--when-unverified=continue"}})
	if len(worktrees) > 1 && r.Chance(50) {
		// directed: another worktree has its own checkout, everything is pushed, old versions fall out of the
		// windows — the only thing that still protects the other checkout's objects is that it IS a checkout,
		// whatever the flags say about recent refs
		for _, tgt := range pushTargets {
			w.git("push", "-q", tgt, "--all")
		}
		flags = Pick(r, [][]string{{"--recent"}, {"--recent"}, {}, {"--force"}})
		s.log("push --all (everything is on the remote)")
		c.R.Count("family.other-worktree-checkout-only")
	}
	lost := map[string]bool{}
	if len(flags) > 0 && flags[0] == "--verify-remote" {
		psrv.mu.Lock()
		var oids []string
		for o := range psrv.objs {
			oids = append(oids, o)
		}
		sort.Strings(oids)
		for _, o := range oids {
			if r.Chance(30) {
				delete(psrv.objs, o)
				lost[o] = true
			}
		}
		psrv.mu.Unlock()
		if len(lost) > 0 {
			s.log("server lost %d objects", len(lost))
		}
	}
	// ---- the set that must survive, from plumbing
	force := len(flags) > 0 && flags[0] == "--force"
	recentOff := force || (len(flags) > 0 && flags[0] == "--recent")
	retained := map[string]string{} // oid -> why
	keep := func(oid, why string) {
		if _, ok := retained[oid]; !ok {
			retained[oid] = why
		}
	}
	keepTree := func(commit, why string, filtered bool) {
		for p, o := range treePtrs(w.dir, w.env, commit) {
			if filtered && c05Excluded(exclude, p) {
				continue
			}
			keep(o, why+" ("+p+")")
		}
	}
	// worktrees: checkout and index
	wtOut, _ := w.git("worktree", "list", "--porcelain")
	var wtDirs, wtHeads []string
	for _, l := range strings.Split(wtOut, "\n") {
		if strings.HasPrefix(l, "worktree ") {
			wtDirs = append(wtDirs, strings.TrimPrefix(l, "worktree "))
		}
		if strings.HasPrefix(l, "HEAD ") {
			wtHeads = append(wtHeads, strings.TrimPrefix(l, "HEAD "))
		}
	}
	for i, d := range wtDirs {
		if i < len(wtHeads) && !force {
			keepTree(wtHeads[i], "checkout of worktree "+filepath.Base(d), true)
		}
		ls, _ := runIn(d, w.env, "git", "ls-files", "-s", "-z")
		for _, ent := range strings.Split(ls, "\x00") {
			tab := strings.SplitN(ent, "\t", 2)
			f := strings.Fields(tab[0])
			if len(tab) != 2 || len(f) < 3 {
				continue
			}
			if c05Excluded(exclude, tab[1]) {
				continue
			}
			blob, code := runIn(d, w.env, "git", "cat-file", "blob", f[1])
			if code != 0 || len(blob) >= cutSpec {
				continue
			}
			if p, ok := isPointerText([]byte(blob)); ok && p.Size > 0 {
				// the index entry matters when it differs from HEAD (a staged, uncommitted version);
				// entries equal to HEAD are covered by the checkout unless --force
				headPtrs := treePtrs(w.dir, w.env, wtHeads[i])
				if headPtrs[tab[1]] != p.Oid {
					keep(p.Oid, "index of worktree "+filepath.Base(d)+" ("+tab[1]+")")
				}
			}
		}
	}
	// stashes
	if stashes > 0 {
		for _, st := range revList(w.dir, w.env, "-g", "refs/stash") {
			baseT := treePtrs(w.dir, w.env, st+"^1")
			for _, side := range []string{st, st + "^2", st + "^3"} {
				if _, code := w.git("rev-parse", "-q", "--verify", side+"^{commit}"); code != 0 {
					continue
				}
				for p, o := range treePtrs(w.dir, w.env, side) {
					if baseT[p] != o {
						keep(o, "stash ("+p+")")
					}
				}
			}
		}
	}
	// unpushed: introduced by a commit reachable from a local branch, tag or HEAD and not from origin's refs
	// … or from the HEAD of any worktree (a detached HEAD elsewhere is still somebody's unpushed work)
	ulArgs := []string{"--branches", "--tags", "HEAD"}
	wtHeadSeen := map[string]bool{}
	if wl, _ := w.git("worktree", "list", "--porcelain"); wl != "" {
		for _, l := range strings.Split(wl, "\n") {
			if strings.HasPrefix(l, "HEAD ") {
				ulArgs = append(ulArgs, strings.TrimPrefix(l, "HEAD "))
				wtHeadSeen[strings.TrimPrefix(l, "HEAD ")] = true
			}
		}
	}
	ownUnpushed := map[string]bool{}
	for _, cm := range revList(w.dir, w.env, "--branches", "--tags", "HEAD", "--not", "--remotes="+pruneRemote) {
		ownUnpushed[cm] = true
	}
	unpushed := revList(w.dir, w.env, append(ulArgs, "--not", "--remotes="+pruneRemote)...)
	for _, cm := range unpushed {
		mine := treePtrs(w.dir, w.env, cm)
		parents := strings.Fields(w.must("rev-list", "--parents", "-n", "1", cm))[1:]
		var pts []map[string]string
		for _, p := range parents {
			pts = append(pts, treePtrs(w.dir, w.env, p))
		}
		for p, o := range mine {
			inSome := false
			for _, pt := range pts {
				if pt[p] == o {
					inSome = true
				}
			}
			if !inSome {
				if ownUnpushed[cm] {
					keep(o, "introduced by unpushed commit "+cm[:8]+" ("+p+")")
				} else {
					keep(o, "introduced by an unpushed commit that only another worktree's detached HEAD reaches "+cm[:8]+" ("+p+")")
				}
			}
		}
	}
	// recent refs and recent commits
	type refInfo struct {
		name, sha string
		t         time.Time
	}
	var tips []refInfo
	headSha := w.must("rev-parse", "HEAD")
	if !force {
		tips = append(tips, refInfo{"HEAD", headSha, time.Time{}})
	}
	if !recentOff && refsDays > 0 {
		since := s.now.AddDate(0, 0, -(refsDays + offsetDays))
		// branches, remote-tracking branches AND tags: a tag is a ref; for an annotated tag the commit it
		// names (and that commit's date) is what counts
		out, _ := w.git("for-each-ref", "--format=%(refname)|%(objectname)|%(committerdate:unix)|%(*objectname)|%(*committerdate:unix)", "refs/heads", "refs/remotes", "refs/tags")
		for _, l := range strings.Split(strings.TrimSpace(out), "\n") {
			f := strings.Split(l, "|")
			if len(f) != 5 {
				continue
			}
			sha, ds, kind := f[1], f[2], "recent ref "
			if f[3] != "" {
				sha, ds, kind = f[3], f[4], "recent annotated tag "
			}
			var u int64
			fmt.Sscan(ds, &u)
			t := time.Unix(u, 0)
			// stay clear of the boundary: only refs at least 6 hours inside the window are demanded
			if u > 0 && t.After(since.Add(6*time.Hour)) {
				tips = append(tips, refInfo{f[0], sha, t})
				keepTree(sha, kind+f[0], true)
				if strings.HasPrefix(f[0], "refs/tags/") {
					c.R.Count("recent-ref.tag")
				}
			}
		}
	}
	// the same question to the Lean model (Pr.retainedRecent): refs with their tip times and, per commit
	// clearly inside or outside the window (6 h clear of the boundary), the versions it replaced
	var mrefs []string
	moid := map[string]int{}
	if !recentOff && commitsDays > 0 {
		for _, tip := range tips {
			cd, _ := w.git("log", "-1", "--format=%ct", tip.sha)
			var u int64
			fmt.Sscan(strings.TrimSpace(cd), &u)
			var mcommits []string
			since := time.Unix(u, 0).AddDate(0, 0, -(commitsDays + offsetDays)).Add(6 * time.Hour)
			sinceLo := since.Add(-12 * time.Hour)
			for _, l := range strings.Split(strings.TrimSpace(w.must("log", "--format=%H %ct %P", tip.sha)), "\n") {
				f := strings.Fields(l)
				if len(f) != 3 {
					continue // root commits and merges: see below
				}
				var cu int64
				fmt.Sscan(f[1], &cu)
				ct := time.Unix(cu, 0)
				if !ct.After(since) && ct.After(sinceLo) {
					continue // too close to the boundary to ask
				}
				mine := treePtrs(w.dir, w.env, f[0])
				var os_ []string
				for p, o := range treePtrs(w.dir, w.env, f[2]) {
					if mine[p] != o && !c05Excluded(exclude, p) {
						if _, ok := moid[o]; !ok {
							moid[o] = len(moid) + 1
						}
						os_ = append(os_, fmt.Sprint(moid[o]))
					}
				}
				sort.Strings(os_)
				mcommits = append(mcommits, fmt.Sprintf("%d=%s", cu, strings.Join(os_, "+")))
			}
			h := "r"
			if tip.name == "HEAD" {
				h = "h"
			}
			mrefs = append(mrefs, fmt.Sprintf("%s:%d:%s", h, u, strings.Join(mcommits, ";")))
		}
	}
	if !recentOff && commitsDays > 0 {
		for _, tip := range tips {
			cd, _ := w.git("log", "-1", "--format=%ct", tip.sha)
			var u int64
			fmt.Sscan(strings.TrimSpace(cd), &u)
			since := time.Unix(u, 0).AddDate(0, 0, -(commitsDays + offsetDays)).Add(6 * time.Hour)
			// first-parent-agnostic: every commit reachable from the tip whose date is inside the window
			for _, l := range strings.Split(strings.TrimSpace(w.must("log", "--format=%H %ct %P", tip.sha)), "\n") {
				f := strings.Fields(l)
				if len(f) < 2 {
					continue
				}
				var cu int64
				fmt.Sscan(f[1], &cu)
				if !time.Unix(cu, 0).After(since) {
					continue
				}
				mine := treePtrs(w.dir, w.env, f[0])
				for _, par := range f[2:] {
					if len(f[2:]) > 1 {
						continue // previous versions across merges: see the unpushed/evil-merge scenarios
					}
					for p, o := range treePtrs(w.dir, w.env, par) {
						if mine[p] != o && !c05Excluded(exclude, p) {
							keep(o, "previous version replaced by recent commit "+f[0][:8]+" ("+p+")")
						}
					}
				}
			}
		}
	}
	// reachable (for --verify-remote): referenced by any commit reachable from any ref
	reachable := map[string]bool{}
	if len(flags) > 0 && flags[0] == "--verify-remote" {
		for _, cm := range revList(w.dir, w.env, "--all") {
			for _, o := range treePtrs(w.dir, w.env, cm) {
				reachable[o] = true
			}
		}
	}
	// ---- the prune remote may be a local repository (file:// URL, served by the built-in standalone
	// transfer agent, no LFS API to ask): its LFS store then holds exactly what the server holds
	if len(flags) > 0 && flags[0] == "--verify-remote" && r.Chance(35) {
		bare := remote
		if pruneRemote == "upstream" {
			bare = filepath.Join(base, "upstream.git")
		}
		psrv.mu.Lock()
		for o, b := range psrv.objs {
			p := filepath.Join(bare, "lfs", "objects", o[0:2], o[2:4], o)
			os.MkdirAll(filepath.Dir(p), 0o755)
			os.WriteFile(p, b, 0o644)
		}
		psrv.mu.Unlock()
		w.git("config", "remote."+pruneRemote+".url", "file://"+bare)
		w.git("config", "--unset", "lfs.url")
		w.git("config", "--unset", "remote."+pruneRemote+".lfsurl")
		s.log("prune remote %s is file://", pruneRemote)
		c.R.Count("family.prune-remote-is-a-local-repository")
	}
	// ---- run prune
	before := w.localObjects()
	psrv.mu.Lock()
	onServer := map[string]bool{}
	for o := range psrv.objs {
		onServer[o] = true
	}
	psrv.mu.Unlock()
	c05LogScan(c, w, fmt.Sprintf("C05 scen seed=%d idx=%d", c.Seed, idx), r)
	os.MkdirAll(pruneCwd, 0o755)
	out, code := runIn(pruneCwd, append(append([]string(nil), w.env...), "GIT_TRACE=1"), w.lfs, append([]string{"prune"}, flags...)...)
	after := w.localObjects()
	s.log("git lfs prune %s -> %d", strings.Join(flags, " "), code)
	enc := fmt.Sprintf("C05 scen seed=%d idx=%d steps=%s", c.Seed, idx, strings.Join(s.steps, " ; "))
	var deleted []string
	for o := range before {
		if _, ok := after[o]; !ok {
			deleted = append(deleted, o)
		}
	}
	sort.Strings(deleted)
	c.R.Eval(enc, len(before) > 0)
	c.R.Count("prune")
	c.R.Count(fmt.Sprintf("prune.flags=%s", strings.Join(flags, ",")))
	if len(deleted) > 0 {
		c.R.Count("prune.deleted-something")
	}
	fail := func(what, impl, sig string) {
		c.R.Add(Finding{Kind: "oracle", What: what, Case: clip(enc, 3000), Impl: clip(impl, 700), Sig: sig})
	}
	dry := len(flags) > 0 && flags[0] == "--dry-run"
	if dry && len(deleted) > 0 {
		fail("`git lfs prune --dry-run` deleted objects", strings.Join(deleted, ","), "")
	}
	for _, o := range deleted {
		if why, ok := retained[o]; ok {
			sig := ""
			if strings.Contains(why, "only another worktree's detached HEAD reaches") {
				sig = "D44"
			}
			fail("prune deleted an object that is still needed: "+strings.SplitN(why, " (", 2)[0], fmt.Sprintf("%s: %s | %s", o[:12], why, clip(out, 200)), sig)
		}
		if len(flags) > 0 && flags[0] == "--verify-remote" {
			unreach := len(flags) > 1 && flags[1] == "--verify-unreachable"
			if !onServer[o] && (reachable[o] || unreach) {
				fail("prune --verify-remote deleted an object that the remote does not hold", fmt.Sprintf("%s reachable=%v", o[:12], reachable[o]), "")
			}
		}
	}
	// ---- the set logic of prune against the model: the retained and verified sets are read from the
	// command's own trace, the local and reachable sets come from the harness
	{
		ids := map[string]int{}
		id := func(o string) int {
			if _, ok := ids[o]; !ok {
				ids[o] = len(ids) + 1
			}
			return ids[o]
		}
		enc := func(m map[string]bool) string {
			var l []string
			for o := range m {
				l = append(l, fmt.Sprint(id(o)))
			}
			sort.Strings(l)
			return joinOrDash(l)
		}
		loc := map[string]bool{}
		for o := range before {
			loc[o] = true
		}
		ret := map[string]bool{}
		for _, m := range retainRe.FindAllStringSubmatch(out, -1) {
			ret[m[1]] = true
		}
		if len(mrefs) > 0 && strings.Contains(out, "RETAIN") {
			// every tip passed here is retained (HEAD or clearly recent): the model is told so by `now` = the tip's
			// own time for non-HEAD refs would hide its window arithmetic, so the real `now` goes in
			ans, err := c.Or.Ask([]string{fmt.Sprintf("C05 recent %d %d %d %d %s", s.now.Unix(), refsDays, commitsDays, offsetDays, strings.Join(mrefs, ","))})
			if err == nil && ans[0] != "-" && ans[0] != "bad-op" {
				rev := map[string]string{}
				for o, n := range moid {
					rev[fmt.Sprint(n)] = o
				}
				for _, n := range strings.Split(ans[0], ",") {
					if o := rev[n]; o != "" && before[o] > 0 && !ret[o] {
						c.R.Add(Finding{Kind: "diff", What: "retention windows: the model retains a previous version (replaced inside the window of a retained ref) that prune's retention tasks did not name", Case: clip(fmt.Sprintf("C05 scen seed=%d idx=%d steps=%s", c.Seed, idx, strings.Join(s.steps, " ; ")), 3000), Impl: o[:12], Model: clip(ans[0]+" <= "+strings.Join(mrefs, ","), 400), Broken: "corr.C05.windows"})
					}
				}
				c.R.Count("windowsmodel")
			}
		}
		ver := map[string]bool{}
		for _, m := range verifiedRe.FindAllStringSubmatch(out, -1) {
			ver[m[1]] = true
		}
		reach := map[string]bool{}
		for o := range reachable {
			reach[o] = true
		}
		has := func(f string) string {
			for _, x := range flags {
				if x == f {
					return "1"
				}
			}
			return "0"
		}
		fl := has("--verify-remote") + has("--verify-unreachable") + has("--when-unverified=continue") + has("--dry-run")
		line := fmt.Sprintf("C05 prune %s %s %s %s %s", fl, enc(loc), enc(ret), enc(reach), enc(ver))
		del := map[string]bool{}
		for _, o := range deleted {
			del[o] = true
		}
		got := "ok " + enc(del)
		if code != 0 && strings.Contains(out, "missing on remote") {
			got = "halt " + enc(del)
		}
		if code == 0 || strings.Contains(out, "missing on remote") {
			tail := ""
			if i := strings.Index(out, "missing on remote"); i >= 0 {
				tail = " | " + clip(out[i:], 400)
			}
			c05Model(line, got, enc0(enc, s.steps, c.Seed, idx)+tail)
			c.R.Count("prunemodel")
		}
	}
	if idx%15 == 0 {
		c.R.Sample(map[string]interface{}{"steps": s.steps, "local_before": len(before), "deleted": len(deleted), "must_survive": len(retained), "exit": code})
	}
}

func enc0(_ func(map[string]bool) string, steps []string, seed uint64, idx int) string {
	return fmt.Sprintf("C05 scen seed=%d idx=%d steps=%s", seed, idx, strings.Join(steps, " ; "))
}

func c05(c *Ctx) {
	r := NewRng(c.Seed ^ 0xC05)
	c.R.Rule = "cases = dated histories (commit ages 0.3-60 days; branches, merges incl. evil resolutions, lightweight/annotated tags, detached HEAD, file removal) with partial pushes to origin, stashes (plain, -u, index+worktree), a second worktree with staged/re-edited files, staged / re-edited / removed files in the main worktree x attribute spellings (diff=lfs, -diff, binary) x ambient diff.noprefix / diff.mnemonicprefix x lfs.fetchrecentrefsdays / fetchrecentcommitsdays / pruneoffsetdays x lfs.fetchexclude x flags (none, --force, --recent, --dry-run [--verbose], --verify-remote [--verify-unreachable | --when-unverified=continue] with objects lost on the server); the must-survive set is computed from plumbing only; non-trivial = scenario with >= 1 local object; distinct = different (seed, index)"
	n := c.N(90, 2000)
	var wg sync.WaitGroup
	sem := make(chan struct{}, 10)
	for i := 0; i < n; i++ {
		rs := r.Fork()
		wg.Add(1)
		sem <- struct{}{}
		go func(i int, rs *Rng) {
			defer wg.Done()
			defer func() { <-sem }()
			defer func() {
				if x := recover(); x != nil {
					c.R.Add(Finding{Kind: "diff", What: fmt.Sprintf("scenario harness problem: %v", x), Broken: "corr.C05.scenario"})
				}
			}()
			c05Scenario(c, i, rs)
		}(i, rs)
	}
	wg.Wait()
	ans, err := c.Or.Ask(c05Lines)
	if err != nil {
		c.R.Add(Finding{Kind: "diff", What: "oracle process failed: " + err.Error(), Broken: "corr.C05.model"})
		return
	}
	for i := range c05Lines {
		if ans[i] != c05Impl[i] {
			what, br := "prune set logic: model and implementation disagree on what is deleted", "corr.C05.prune"
			if strings.HasPrefix(c05Lines[i], "C05 logscan") {
				what, br = "git-log parser: model and implementation disagree", "corr.C05.logscan"
			}
			c.R.Add(Finding{Kind: "diff", What: what, Case: clip(c05Case[i], 2500), Impl: clip(c05Impl[i], 500), Model: clip(ans[i], 500) + " <= " + clip(c05Lines[i], 300), Broken: br})
		}
	}
}

func init() { campaigns["C05"] = c05 }
