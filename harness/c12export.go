package main

import (
	"bytes"
	"fmt"
	"os"
	"path/filepath"
	"strings"
)

// c12Export: `git lfs migrate export` on a history whose LFS files were committed by somebody else: canonical
// pointers, and the other spellings the filters accept as pointers (CRLF line ends, an earlier version URL, a
// blank line in front, a second newline at the end).  After the export every SELECTED path holds the object's
// bytes in every commit, every other path its old blob, and the graph, headers and modes are the old ones.
func c12Export(c *Ctx, idx int, r *Rng) {
	base := filepath.Join(c.Work, fmt.Sprintf("c12x-%d", idx))
	defer os.RemoveAll(base)
	os.MkdirAll(base, 0o755)
	w, err := newScenRepo(c, filepath.Join(base, "w"), nil)
	if err != nil {
		return
	}
	var steps []string
	log := func(f string, a ...interface{}) { steps = append(steps, fmt.Sprintf(f, a...)) }
	w.write(".gitattributes", []byte("*.bin filter=lfs diff=lfs merge=lfs -text\n*.dat filter=lfs -text\n"))
	content := map[string][]byte{} // pointer blob text -> object bytes
	spell := func(b []byte) []byte {
		oid := sha(b)
		op := w.objectPath(oid)
		os.MkdirAll(filepath.Dir(op), 0o755)
		os.WriteFile(op, b, 0o644)
		cp := canonicalPointer(oid, int64(len(b)))
		kind := Pick(r, []string{"canonical", "canonical", "crlf", "legacy-url", "blank-first", "newline-last"})
		var p []byte
		switch kind {
		case "crlf":
			p = bytes.ReplaceAll(cp, []byte("\n"), []byte("\r\n"))
		case "legacy-url":
			p = bytes.Replace(cp, []byte("https://git-lfs.github.com/spec/v1"), []byte(Pick(r, []string{"https://hawser.github.com/spec/v1", "http://git-media.io/v/2"})), 1)
		case "blank-first":
			p = append([]byte("\n"), cp...)
		case "newline-last":
			p = append(append([]byte(nil), cp...), '\n')
		default:
			p = cp
		}
		c.R.Count("export.pointer." + kind)
		content[string(p)] = b
		return p
	}
	files := []string{"a.bin", "sub/b.bin", "c.dat", "sub/deep/d.dat", "notes.txt"}
	ncommits := 1 + r.Intn(3)
	for g := 0; g < ncommits; g++ {
		for _, f := range files {
			if g > 0 && r.Chance(50) {
				continue
			}
			if f == "notes.txt" {
				w.write(f, r.Bytes(200))
			} else {
				w.write(f, spell(r.Bytes(Pick(r, []int{1200, 3000, 20}))))
			}
		}
		if g == 0 && r.Chance(40) {
			os.Chmod(filepath.Join(w.dir, "a.bin"), 0o755)
		}
		// the pointer texts are committed as they are: no filter runs
		w.gitEnv([]string{"GIT_LFS_SKIP_SMUDGE=1"}, "-c", "filter.lfs.clean=cat", "-c", "filter.lfs.process=", "-c", "filter.lfs.required=false", "add", "-A")
		w.git("commit", "-qm", fmt.Sprintf("c%d", g))
		if r.Chance(30) {
			w.git("tag", "-a", "-m", "tag", fmt.Sprintf("v%d", g))
		}
	}
	sel := Pick(r, []string{"*.bin", "*.dat", "*.bin,*.dat", "sub/**", "a.bin"})
	selected := func(p string) bool {
		for _, pat := range strings.Split(sel, ",") {
			switch pat {
			case "*.bin":
				if strings.HasSuffix(p, ".bin") {
					return true
				}
			case "*.dat":
				if strings.HasSuffix(p, ".dat") {
					return true
				}
			case "sub/**":
				if strings.HasPrefix(p, "sub/") {
					return true
				}
			case "a.bin":
				if p == "a.bin" {
					return true
				}
			}
		}
		return false
	}
	oldH, oldOrder := c12ReadHistory(w)
	args := []string{"migrate", "export", "--everything", "--include=" + sel, "--yes"}
	out, code := w.runLfs(args...)
	log("git lfs %s -> %d", strings.Join(args, " "), code)
	enc := fmt.Sprintf("C12 export seed=%d idx=%d steps=%s", c.Seed, idx, strings.Join(steps, " ; "))
	c.R.Eval(enc, true)
	fail := func(what, impl string) {
		c.R.Add(Finding{Kind: "oracle", What: what, Case: enc, Impl: clip(impl, 500)})
	}
	if code != 0 {
		fail("`git lfs migrate export` of already tracked files failed although every object is in local storage", out)
		return
	}
	newH, newOrder := c12ReadHistory(w)
	if len(newOrder) != len(oldOrder) {
		fail("export changed the number of commits", fmt.Sprint(len(newOrder), " vs ", len(oldOrder)))
		return
	}
	for i, oid := range oldOrder {
		oc, nc := oldH[oid], newH[newOrder[i]]
		if oc.header != nc.header {
			fail("export changed a commit's author, committer, date or message", oid[:8])
			continue
		}
		nm := map[string]c12Entry{}
		for _, e := range nc.tree {
			nm[e.path] = e
		}
		for _, e := range oc.tree {
			if e.path == ".gitattributes" {
				continue
			}
			ne, ok := nm[e.path]
			if !ok {
				fail("export lost a path", oid[:8]+" "+e.path)
				continue
			}
			if ne.mode != e.mode {
				fail("export changed a file's mode", fmt.Sprintf("%s %s %s -> %s", oid[:8], e.path, e.mode, ne.mode))
			}
			ob, _ := w.git("cat-file", "blob", e.blob)
			nb, _ := w.git("cat-file", "blob", ne.blob)
			obj, wasPointer := content[ob]
			if selected(e.path) && wasPointer {
				if nb != string(obj) {
					what := "after export a selected path does not hold its object's bytes"
					if nb == ob {
						what = "after export a selected path is still the pointer it was (a spelling of a pointer that the filters resolve)"
					}
					fail(what, fmt.Sprintf("%s %s: %q", oid[:8], e.path, clip(nb, 80)))
				}
			} else if ne.blob != e.blob {
				fail("export changed a path outside the selection", oid[:8]+" "+e.path)
			}
		}
	}
	c.R.Count("export.standalone")
}
