// C19: what `git lfs track` writes means to Git exactly what the user asked.  Git (check-attr) is
// the authority.  (1) escaping functions vs model, in process; (2) the model's fragment of Git's
// matcher vs `git check-attr`; (3) real `git lfs track/untrack` runs judged by `git check-attr`.
package main

import (
	"bytes"
	"fmt"
	"os"
	"os/exec"
	"path/filepath"
	"strings"
	"sync"

	"github.com/git-lfs/git-lfs/v3/commands"
)

var c19Alphabet = []string{"a", "b", "Z", "0", "9", ".", "-", "_", " ", " ", "#", "*", "?", "[", "]", "\\", "!", "\"", "\t", "é", "'", "=", "+", "~", "(", "$", "%"}

func genTrackName(r *Rng, safeOnly bool) string {
	n := 1 + r.Intn(7)
	var sb strings.Builder
	for i := 0; i < n; i++ {
		ch := Pick(r, c19Alphabet)
		if safeOnly && (ch == "\t" || ((ch == "!" || ch == "\"") && i == 0)) {
			ch = "x"
		}
		sb.WriteString(ch)
	}
	if r.Chance(6) {
		// a hidden file whose second character is one --filename escapes with a backslash: the escaped pattern
		// then begins with `.\` without naming the current directory (D85)
		return "." + Pick(r, []string{"?", "*", "[", "]"}) + Pick(r, []string{".dat", "x.bin", "a]"})
	}
	s := strings.TrimRight(sb.String(), " ") // trailing blanks make a file name git itself handles specially
	if s == "" || s == "." || s == ".." {
		s = "f"
	}
	return s + Pick(r, []string{".dat", ".bin", "", ".x y"})
}

// checkAttr asks Git for the `filter` attribute of each path (relative to the repo root).
func checkAttr(dir string, paths []string) map[string]string {
	out := map[string]string{}
	if len(paths) == 0 {
		return out
	}
	cmd := exec.Command("git", "check-attr", "-z", "--stdin", "filter")
	cmd.Dir = dir
	cmd.Stdin = strings.NewReader(strings.Join(paths, "\x00") + "\x00")
	b, err := cmd.Output()
	if err != nil {
		return out
	}
	f := strings.Split(string(b), "\x00")
	for i := 0; i+2 < len(f); i += 3 {
		out[f[i]] = f[i+2]
	}
	return out
}

func checkAttrOf(dir, attr string, paths []string) map[string]string {
	out := map[string]string{}
	if len(paths) == 0 {
		return out
	}
	cmd := exec.Command("git", "check-attr", "-z", "--stdin", attr)
	cmd.Dir = dir
	cmd.Stdin = strings.NewReader(strings.Join(paths, "\x00") + "\x00")
	b, err := cmd.Output()
	if err != nil {
		return out
	}
	f := strings.Split(string(b), "\x00")
	for i := 0; i+2 < len(f); i += 3 {
		out[f[i]] = f[i+2]
	}
	return out
}

// neighbours: names that differ from n at one position in a way an over- or under-escaping would confuse
func neighbours(n string) []string {
	set := map[string]bool{n: true}
	rs := []rune(n)
	for i, c := range rs {
		var subs []string
		switch c {
		case ' ':
			subs = []string{"\t", "x", "\v", "_"}
		case '*', '?':
			subs = []string{"x", "xx", ""}
		case '[', ']':
			subs = []string{"x"}
		case '#':
			subs = []string{"x"}
		case '\\':
			subs = []string{"", "/"}
		default:
			if i == len(rs)/2 {
				subs = []string{"x"}
			}
		}
		for _, s := range subs {
			m := string(rs[:i]) + s + string(rs[i+1:])
			if m != "" && !strings.Contains(m, "/") && m != "." && m != ".." {
				set[m] = true
			}
		}
	}
	set[n+"x"] = true
	set["x"+n] = true
	var out []string
	for k := range set {
		out = append(out, k)
	}
	sortStrings(out)
	return out
}

func c19(c *Ctx) {
	r := NewRng(c.Seed ^ 0xC19)
	c.R.Rule = "cases = (1) strings over printable ASCII + blank, tab, quotes, #, !, glob characters, backslash, UTF-8 through the three escaping functions; (2) (name, probe path) pairs for the model's matcher vs git check-attr; (3) `git lfs track [--filename] <arg>` / untrack / re-track runs over pre-existing .gitattributes files (comments, macros, CRLF, other patterns), from the root and from sub-directories, judged by git check-attr over the name and its neighbours; non-trivial = name containing >= 1 character outside [A-Za-z0-9._/-]; distinct = different encoded case"
	// ---- (1) escaping functions
	n1 := c.N(20000, 400000)
	var lines, impl []string
	for i := 0; i < n1; i++ {
		s := genTrackName(r, false)
		if r.Chance(10) {
			s = commands.VerifEscapeGlobCharacters(s) // already-escaped text, for unescape
		}
		op := Pick(r, []string{"escglob", "escattr", "unesc"})
		var got string
		switch op {
		case "escglob":
			got = commands.VerifEscapeGlobCharacters(s)
		case "escattr":
			got = commands.VerifEscapeAttrPattern(s)
		default:
			got = commands.VerifUnescapeAttrPattern(s)
		}
		lines = append(lines, "C19 "+op+" "+hx([]byte(s)))
		impl = append(impl, hx([]byte(got)))
		c.R.Eval(lines[i], strings.ContainsAny(s, " #*?[]\\!\"\t"))
		c.R.Count("esc." + op)
	}
	model, err := c.Or.Ask(lines)
	if err != nil {
		c.R.Add(Finding{Kind: "diff", What: "oracle process failed: " + err.Error(), Broken: "corr.C19.escape"})
	} else {
		for i := range lines {
			if model[i] != impl[i] {
				c.R.Add(Finding{Kind: "diff", What: "pattern escaping: model and implementation disagree", Case: lines[i], Impl: impl[i], Model: model[i], Broken: "corr.C19.escape"})
			}
		}
	}
	if c.Replay != "" {
		return
	}
	// ---- (2) the model's matcher vs git check-attr
	c19Matcher(c, r)
	c19Sequences(c, r.Fork())
	// ---- (3) the real commands
	n3 := c.N(160, 6000)
	var wg sync.WaitGroup
	sem := make(chan struct{}, 12)
	for i := 0; i < n3; i++ {
		rs := r.Fork()
		wg.Add(1)
		sem <- struct{}{}
		go func(i int, rs *Rng) {
			defer wg.Done()
			defer func() { <-sem }()
			c19Scenario(c, i, rs)
		}(i, rs)
	}
	wg.Wait()
}

func c19Sequences(c *Ctx, r *Rng) {
	n := c.N(60, 1200)
	var mu sync.Mutex
	var ml, mi, mc []string
	var wg sync.WaitGroup
	sem := make(chan struct{}, 10)
	for i := 0; i < n; i++ {
		rs := r.Fork()
		wg.Add(1)
		sem <- struct{}{}
		go func(i int, rs *Rng) {
			defer wg.Done()
			defer func() { <-sem }()
			if i%4 == 3 {
				c19SubdirSequence(c, i, rs)
				return
			}
			c19Sequence(c, i, rs, func(line, impl, cas string) {
				mu.Lock()
				ml, mi, mc = append(ml, line), append(mi, impl), append(mc, cas)
				mu.Unlock()
			})
		}(i, rs)
	}
	wg.Wait()
	ans, err := c.Or.Ask(ml)
	if err != nil {
		c.R.Add(Finding{Kind: "diff", What: "oracle process failed: " + err.Error(), Broken: "corr.C19.seq"})
		return
	}
	for k := range ml {
		if ans[k] != mi[k] {
			c.R.Add(Finding{Kind: "diff", What: "the lines of .gitattributes after a track/untrack sequence: model and implementation disagree", Case: clip(mc[k], 1500), Impl: mi[k], Model: ans[k] + " <= " + clip(ml[k], 400), Broken: "corr.C19.seq"})
		}
	}
}

func c19Matcher(c *Ctx, r *Rng) {
	dir := filepath.Join(c.Work, "c19-matcher")
	if gitInit(dir) != nil {
		return
	}
	n := c.N(250, 5000)
	var mlines, mimpl []string
	for i := 0; i < n; i++ {
		name := genTrackName(r, true)
		if strings.ContainsAny(name, "\t") || strings.HasPrefix(name, "!") || strings.HasPrefix(name, "\"") {
			continue
		}
		pat := commands.VerifEscapeGlobCharacters(name)
		os.WriteFile(filepath.Join(dir, ".gitattributes"), []byte(pat+" filter=lfs\n"), 0o644)
		probes := neighbours(name)
		got := checkAttr(dir, probes)
		for _, q := range probes {
			mlines = append(mlines, fmt.Sprintf("C19 match %s %s", hx([]byte(name)), hx([]byte(q))))
			v := "0"
			if got[q] == "lfs" {
				v = "1"
			}
			mimpl = append(mimpl, v)
			c.R.Eval(mlines[len(mlines)-1], true)
			c.R.Count("match." + v)
		}
	}
	model, err := c.Or.Ask(mlines)
	if err != nil {
		c.R.Add(Finding{Kind: "diff", What: "oracle process failed: " + err.Error(), Broken: "corr.C19.gitmatcher"})
		return
	}
	for i := range mlines {
		if model[i] != mimpl[i] {
			c.R.Add(Finding{Kind: "diff", What: "the model's fragment of Git's matcher disagrees with git check-attr", Case: mlines[i], Impl: mimpl[i], Model: model[i], Broken: "corr.C19.gitmatcher"})
		}
	}
}

func c19Scenario(c *Ctx, i int, r *Rng) {
	dir := filepath.Join(c.Work, fmt.Sprintf("c19-%d", i))
	defer os.RemoveAll(dir)
	if gitInit(dir) != nil {
		return
	}
	cfgFile := filepath.Join(c.Work, fmt.Sprintf("c19-%d.gitconfig", i))
	defer os.Remove(cfgFile)
	os.WriteFile(cfgFile, []byte("[user]\n\tname = v\n\temail = v@example.invalid\n"), 0o644)
	env := []string{"GIT_CONFIG_GLOBAL=" + cfgFile, "GIT_LFS_TRACK_NO_INSTALL_HOOKS=1", "PATH=" + filepath.Dir(c.Lfs) + ":" + os.Getenv("PATH")}
	filename := r.Chance(65)
	var arg string
	if filename {
		arg = genTrackName(r, false)
		if r.Chance(4) {
			arg = ".\\" + genTrackName(r, true) // on this platform a backslash is an ordinary character of a file name
		}
	} else {
		arg = Pick(r, []string{"*.dat", "*.x y", "img/*.png", "a b*.dat", "data/**/*.bin", "/rooted.dat", "file#1.dat", "doc ?.txt", "*.[ch]"})
	}
	sub := ""
	if r.Chance(20) {
		sub = "sub"
		os.MkdirAll(filepath.Join(dir, sub), 0o755)
	}
	pre := Pick(r, []string{"", "", "# a comment\n*.txt text\n", "*.old filter=lfs diff=lfs merge=lfs -text\nother.bin -text\n", "[attr]mybin -text -diff\n*.raw mybin\n", "*.txt text\r\n*.old filter=lfs -text\r\n",
		// files whose last line is not terminated (hand-edited, printf): an appended entry must not be glued to it
		"*.txt text\n*.old filter=lfs -text", "*.old filter=lfs -text\n# trailing comment", "*.old filter=lfs -text\r\n*.txt text", "other.bin -text\n*.old filter=lfs"})
	nestedMacro := ""
	if r.Chance(6) {
		// a macro DEFINED in a .gitattributes that is not the top-level one: Git refuses such a definition
		// ("[attr]… not allowed"), so a line using the name assigns no filter — the pattern is NOT tracked yet
		filename = false
		arg = Pick(r, []string{"*.dat", "*.[ch]", "img/*.png", "file#1.dat"})
		nestedMacro = Pick(r, []string{"same-file", "used-above"})
		macro := "[attr]lfsm filter=lfs diff=lfs merge=lfs -text\n"
		if nestedMacro == "same-file" {
			sub = "sub"
			os.MkdirAll(filepath.Join(dir, sub), 0o755)
			pre = macro + arg + " lfsm\n"
		} else {
			sub = ""
			os.MkdirAll(filepath.Join(dir, "assets"), 0o755)
			os.WriteFile(filepath.Join(dir, "assets", ".gitattributes"), []byte(macro), 0o644)
			pre = arg + " lfsm\n"
		}
		c.R.Count("track.nested-macro." + nestedMacro)
	}
	if nestedMacro == "" && r.Chance(8) {
		filename = false
		arg = Pick(r, []string{"*.dat", "*.[ch]", "img/*.png", "/rooted.dat", "data/**/*.bin"})
		// the pattern is already MENTIONED by a line that does not assign the filter (lockable without LFS,
		// as the manual describes for non-LFS files; an explicit -filter): it is not tracked yet
		pre = Pick(r, []string{"", "*.txt text\n"}) + arg + Pick(r, []string{" lockable\n", " -filter\n", " text\n", " filter=other\n"})
		c.R.Count("track.mentioned-not-tracked")
	}
	family := ""
	if nestedMacro == "" && r.Chance(10) {
		filename = false
		family = Pick(r, []string{"above-has-dir-pattern", "macro-tracked", "long-line"})
		switch family {
		case "above-has-dir-pattern":
			// the top-level file already tracks `sub/<pattern>` — direct children of sub only — and the
			// command is run in sub/ with <pattern>, which there denotes every depth below sub
			arg = Pick(r, []string{"*.dat", "*.[ch]", "file#1.dat"})
			sub = "sub"
			os.MkdirAll(filepath.Join(dir, sub), 0o755)
			os.WriteFile(filepath.Join(dir, ".gitattributes"), []byte("sub/"+strings.ReplaceAll(arg, "#", "\\#")+" filter=lfs diff=lfs merge=lfs -text\n"), 0o644)
			pre = Pick(r, []string{"", "*.txt text\n"})
		case "macro-tracked":
			// tracked through a macro of the top-level file: `git lfs untrack` is to end that
			arg = Pick(r, []string{"*.dat", "img/*.png"})
			sub = ""
			pre = "[attr]lfsbin filter=lfs diff=lfs merge=lfs -text\n" + arg + " lfsbin\n"
		case "long-line":
			// a line longer than any reader's default buffer, followed by other patterns' lines
			arg = Pick(r, []string{"*.dat", "img/*.png"})
			pre = "# " + strings.Repeat("x", 70000) + "\n*.old filter=lfs diff=lfs merge=lfs -text\nother.bin -text\n*.txt text\n"
		}
		c.R.Count("track.family." + family)
	}
	wd := filepath.Join(dir, sub)
	if pre != "" {
		os.WriteFile(filepath.Join(wd, ".gitattributes"), []byte(pre), 0o644)
	}
	enc := fmt.Sprintf("C19 scen filename=%v sub=%s arg=%s pre=%s", filename, orDash(sub), hx([]byte(arg)), hx([]byte(pre)))
	if nestedMacro != "" {
		enc += " nested-macro=" + nestedMacro
	}
	if family != "" {
		enc += " family=" + family
	}
	c.R.Eval(enc, strings.ContainsAny(arg, " #*?[]\\!\"\t"))
	rel := func(p string) string {
		if sub == "" {
			return p
		}
		return sub + "/" + p
	}
	// probe set: the name / instances of the pattern, neighbours, and paths the pre-existing file mentions
	var probes []string
	if filename {
		for _, q := range neighbours(arg) {
			probes = append(probes, rel(q))
		}
	} else {
		for _, q := range []string{"x.dat", "a b.dat", "a bc.dat", "a\tb.dat", "ab.dat", "img/p.png", "p.png", "data/q.bin", "data/u/v/q.bin", "rooted.dat", "deep/rooted.dat", "file#1.dat", "file1.dat", "doc 1.txt", "doc\t1.txt", "doc12.txt", "m.c", "m.h", "m.x y", "m.xy", "deep/x.dat", "deep/m.c", "deep/file#1.dat"} {
			probes = append(probes, rel(q))
		}
	}
	others := []string{rel("n.txt"), rel("o.old"), rel("other.bin"), rel("r.raw"), "top.old"}
	before := checkAttr(dir, append(append([]string(nil), probes...), others...))
	beforeText := checkAttrOf(dir, "text", others)
	args := []string{"track"}
	if filename {
		args = append(args, "--filename")
	}
	args = append(args, arg)
	fail := func(what, impl, sig string) {
		c.R.Add(Finding{Kind: "oracle", What: what, Case: enc, Impl: clip(impl, 400), Sig: sig})
	}
	// fault paths of track: its exits that do not go through the normal return
	fault := Pick(r, []string{"", "", "", "", "", "missing-worktree-file", "missing-worktree-file", "forbidden-pattern"})
	instance := map[string]string{"*.dat": "x.dat", "img/*.png": "img/p.png", "a b*.dat": "a bc.dat", "file#1.dat": "file#1.dat", "*.[ch]": "m.c", "/rooted.dat": "rooted.dat"}
	switch {
	case fault == "missing-worktree-file" && !filename && instance[arg] != "":
		// an index entry that matches the new pattern has no file in the working tree (rm without git rm):
		// track reports an error for it and exits 2
		f := filepath.Join(wd, instance[arg])
		os.MkdirAll(filepath.Dir(f), 0o755)
		os.WriteFile(f, []byte("content\n"), 0o644)
		runIn(wd, env, "git", "add", "--", instance[arg])
		os.Remove(f)
		enc += " fault=missing-worktree-file"
		c.R.Count("track.fault.missing-worktree-file")
	case fault == "forbidden-pattern" && !filename:
		// a pattern that matches .gitattributes itself is refused (exit 1)
		if pre == "" {
			os.WriteFile(filepath.Join(wd, ".gitattributes"), []byte("*.keep text\n"), 0o644)
		}
		runIn(wd, env, "git", "add", "--", ".gitattributes")
		arg = Pick(r, []string{".git*", ".gitattributes", ".gita*"})
		args[len(args)-1] = arg
		enc += " fault=forbidden-pattern:" + arg
		c.R.Count("track.fault.forbidden-pattern")
	default:
		fault = ""
	}
	out1, code1 := runIn(wd, env, c.Lfs, args...)
	c.R.Count("track")
	if code1 != 0 {
		c.R.Count("track.exit-nonzero")
		// whatever made track give up, the assignments of all OTHER patterns are as they were
		afterF := checkAttr(dir, others)
		afterFT := checkAttrOf(dir, "text", others)
		for _, q := range others {
			if before[q] != afterF[q] || beforeText[q] != afterFT[q] {
				fail("`git lfs track` exited non-zero and changed the attributes of a path its argument does not denote", fmt.Sprintf("%s: filter %s -> %s, text %s -> %s (exit %d: %s)", q, before[q], afterF[q], beforeText[q], afterFT[q], code1, clip(out1, 160)), "")
			}
		}
		if fault == "forbidden-pattern" {
			was := pre
			if was == "" {
				was = "*.keep text\n"
			}
			now, _ := os.ReadFile(filepath.Join(wd, ".gitattributes"))
			if strings.Join(strings.Fields(string(now)), " ") != strings.Join(strings.Fields(was), " ") {
				fail("a refused pattern left .gitattributes with other entries than before", fmt.Sprintf("%q -> %q", was, string(now)), "")
			}
		}
		return
	}
	attrs1, _ := os.ReadFile(filepath.Join(wd, ".gitattributes"))
	after := checkAttr(dir, append(append([]string(nil), probes...), others...))
	// other patterns' assignments unchanged
	afterText := checkAttrOf(dir, "text", others)
	for _, q := range others {
		if beforeText[q] != afterText[q] && !(filename && q == rel(arg)) && !strings.Contains(string(attrs1), "-text\n") {
			fail("`git lfs track` changed the `text` attribute of a path the argument does not denote", q+": text "+beforeText[q]+" -> "+afterText[q], "")
		}
	}
	if strings.HasSuffix(pre, " lockable\n") && instance[arg] != "" && fault == "" {
		// tracked without a lock flag: the lockable attribute the line carried is left as it is
		if got := checkAttrOf(dir, "lockable", []string{rel(instance[arg])})[rel(instance[arg])]; got != "set" {
			fail("`git lfs track <pattern>` without a lock flag removed the lockable attribute of that pattern", fmt.Sprintf("pattern=%q lockable=%s written=%q", arg, got, string(attrs1)), "")
		}
	}
	if !filename {
		// what the pattern denotes: Git's own reading of the same pattern written as a quoted pattern
		// (no escaping by git-lfs involved) in a scratch repository at the same relative place
		spec := filepath.Join(c.Work, fmt.Sprintf("c19-%d-spec", i))
		defer os.RemoveAll(spec)
		if gitInit(spec) == nil {
			os.MkdirAll(filepath.Join(spec, sub), 0o755)
			q := strings.ReplaceAll(strings.ReplaceAll(arg, "\\", "\\\\"), "\"", "\\\"")
			os.WriteFile(filepath.Join(spec, sub, ".gitattributes"), []byte("\""+q+"\" filter=lfs\n"), 0o644)
			want := checkAttr(spec, probes)
			for _, pr := range probes {
				if before[pr] == "lfs" {
					continue
				}
				if (want[pr] == "lfs") != (after[pr] == "lfs") {
					sig := ""
					if strings.Contains(arg, " ") && strings.ContainsAny(pr, "\t") {
						sig = "D9a"
					}
					if family == "above-has-dir-pattern" && want[pr] == "lfs" && strings.HasPrefix(pr, sub+"/deep/") && strings.Contains(out1, "already supported") {
						// the top-level line `sub/<pattern>` makes track answer "already supported" (upstream pins
						// this reading in t/t-track.sh "track representation"); deeper directories stay outside
						sig = "D58"
					}
					fail("after `git lfs track <pattern>` Git's attribute lookup differs from what the pattern denotes (Git's reading of the quoted pattern)", fmt.Sprintf("pattern=%q path=%q want lfs=%v got lfs=%v written=%q", arg, pr, want[pr] == "lfs", after[pr] == "lfs", string(attrs1)), sig)
				}
			}
			c.R.Count("pattern.denotation-checked")
		}
	}
	for _, q := range others {
		if before[q] != after[q] && !(filename && q == rel(arg)) {
			fail("`git lfs track` changed the attribute assignment of a path the argument does not denote", q+": "+before[q]+" -> "+after[q], "")
		}
	}
	if filename {
		hasBlank := strings.Contains(arg, " ")
		for _, q := range probes {
			isTarget := q == rel(arg)
			got := after[q] == "lfs"
			switch {
			case isTarget && !got:
				sig := ""
				if strings.ContainsAny(arg, "\t") || strings.HasPrefix(arg, "!") || strings.HasPrefix(arg, "\"") || strings.HasPrefix(arg, "../") {
					sig = "D9b" // tab / leading ! or " are not expressible in the unquoted pattern the command writes
				}
				if strings.HasPrefix(arg, ".\\") {
					sig = "D57" // `.\` is taken for the current directory on every platform (tools.TrimCurrentPrefix)
				}
				fail("after `git lfs track --filename <name>` Git does not assign the LFS filter to that literal path", fmt.Sprintf("name=%q written=%q", arg, string(attrs1)), sig)
			case !isTarget && got && before[q] != "lfs":
				sig := ""
				if hasBlank && sameModuloSpace(rel(arg), q) {
					sig = "D9a" // [[:space:]] also matches other whitespace where the name has a blank
				}
				if strings.HasPrefix(arg, ".\\") {
					sig = "D57"
				}
				fail("after `git lfs track --filename <name>` Git assigns the LFS filter to a path other than that literal name", fmt.Sprintf("name=%q other=%q", arg, q), sig)
			}
		}
	}
	// idempotence
	out2, _ := runIn(wd, env, c.Lfs, args...)
	attrs2, _ := os.ReadFile(filepath.Join(wd, ".gitattributes"))
	if !bytes.Equal(attrs1, attrs2) {
		sig := ""
		if filename && strings.ContainsAny(arg, " #\\") {
			sig = "D9c" // the duplicate check compares the escaped with the unescaped spelling
		}
		if filename && (strings.Contains(arg, "\t") || strings.HasPrefix(arg, "!") || strings.HasPrefix(arg, "\"")) {
			sig = "D9b" // the line written for such a name is not tokenised back to the same pattern
		}
		if filename && strings.HasPrefix(arg, ".\\") && sig == "" {
			sig = "D57"
		}
		fail("re-running `git lfs track` with the same argument changed .gitattributes", fmt.Sprintf("first=%q second=%q (%s | %s)", string(attrs1), string(attrs2), strings.TrimSpace(out1), strings.TrimSpace(out2)), sig)
	}
	// untrack
	runIn(wd, env, c.Lfs, "untrack", arg)
	c.R.Count("untrack")
	afterUn := checkAttr(dir, probes)
	if family == "macro-tracked" {
		for _, q := range probes {
			if before[q] == "lfs" && afterUn[q] == "lfs" {
				fail("after `git lfs untrack` the path is still assigned the LFS filter", fmt.Sprintf("arg=%q path=%q (tracked through a macro of the top-level file)", arg, q), "D55")
				break
			}
		}
	}
	for _, q := range probes {
		if after[q] == "lfs" && before[q] != "lfs" && afterUn[q] == "lfs" {
			sig := ""
			if filename && strings.ContainsAny(arg, " #") {
				sig = "D9c"
			}
			fail("after `git lfs untrack` the path is still assigned the LFS filter", fmt.Sprintf("arg=%q path=%q", arg, q), sig)
			break
		}
	}
	if i%40 == 0 {
		c.R.Sample(map[string]interface{}{"filename": filename, "arg": arg, "sub": sub, "pre_existing": pre, "written": string(attrs1)})
	}
}

// c19Sequence: several track / untrack / lockable operations over RELATED patterns (rooted and
// unrooted spellings of one name, an extension glob, a directory-qualified name).  After every step
// Git's attribute lookup must equal the lookup in a scratch repository whose .gitattributes holds
// the same patterns written by hand in Git's quoted-pattern syntax.
func c19Sequence(c *Ctx, i int, r *Rng, add func(line, impl, cas string)) {
	dir := filepath.Join(c.Work, fmt.Sprintf("c19s-%d", i))
	spec := filepath.Join(c.Work, fmt.Sprintf("c19s-%d-spec", i))
	defer os.RemoveAll(dir)
	defer os.RemoveAll(spec)
	if gitInit(dir) != nil || gitInit(spec) != nil {
		return
	}
	cfgFile := filepath.Join(c.Work, fmt.Sprintf("c19s-%d.gitconfig", i))
	defer os.Remove(cfgFile)
	os.WriteFile(cfgFile, []byte("[user]\n\tname = v\n\temail = v@example.invalid\n"), 0o644)
	env := []string{"GIT_CONFIG_GLOBAL=" + cfgFile, "GIT_LFS_TRACK_NO_INSTALL_HOOKS=1", "PATH=" + filepath.Dir(c.Lfs) + ":" + os.Getenv("PATH")}
	pre := Pick(r, []string{"", "# comment\n*.txt text\n", "*.txt text"})
	// a file in which `*.bin` is ALREADY tracked and a later, more specific line takes a sub-tree out of LFS
	// again (the spelling `git lfs migrate export` writes): changing the lock flag of `*.bin` must rewrite its
	// line where it stands — moved behind the override it would put sub/*.bin back into LFS
	preTracked := map[string]bool{}
	if r.Chance(25) {
		pre = "*.txt text\n*.bin filter=lfs diff=lfs merge=lfs -text\nsub/*.bin !filter !diff !merge !text\n"
		preTracked["*.bin"] = true
		c.R.Count("seq.pre-tracked-with-override")
	}
	if pre != "" {
		os.WriteFile(filepath.Join(dir, ".gitattributes"), []byte(pre), 0o644)
	}
	pats := []string{"/data.bin", "data.bin", "*.bin", "sub/data.bin", "/sub/data.bin", "sub/*.bin", "other.bin", "/other.bin"}
	if len(preTracked) > 0 {
		// `sub/*.bin` is the pattern of the overriding line of that file: tracking it rewrites THAT line (the first
		// one with this pattern, model TrkSeq.replaceFirst) and untracking removes it — the hand-written reference
		// below keeps the lines of `pre` that do not track, so the sequences of this family leave the pattern alone
		pats = []string{"/data.bin", "data.bin", "*.bin", "sub/data.bin", "/sub/data.bin", "other.bin", "/other.bin"}
	}
	probes := []string{"data.bin", "sub/data.bin", "sub/deep/data.bin", "other.bin", "sub/other.bin", "deep/sub/data.bin", "x.txt", "sub/x.txt"}
	type st struct{ lockable bool }
	active := map[string]*st{}
	var order []string
	for p := range preTracked {
		active[p] = &st{false} // its line is in `pre`, not in `order`
	}
	var steps []string
	var mops []string
	n := 2 + r.Intn(4)
	// directed: a lockable pattern tracked again WITHOUT a lock flag keeps its lockable attribute
	// ("leave lockable as-is"), whichever spelling the pattern has
	relock := ""
	if r.Chance(20) {
		relock = Pick(r, pats)
	}
	exactFam := ""
	if relock == "" && len(preTracked) == 0 && r.Chance(12) {
		exactFam = Pick(r, []string{"other.bin", "data.bin"})
		if n < 3 {
			n = 3
		}
		c.R.Count("seq.rooted-and-unrooted-lines")
	}
	for k := 0; k < n; k++ {
		p := Pick(r, pats)
		var args []string
		op := r.Intn(6)
		if relock != "" && k < 2 {
			p = relock
			op = []int{1, 5}[k]
		}
		if exactFam != "" && k < 3 {
			// directed (D77): `/x` lockable, then `x` beside it, then the lock flag of `/x` is taken away again
			p = []string{"/" + exactFam, exactFam, "/" + exactFam}[k]
			op = []int{1, 5, 2}[k]
		}
		if len(preTracked) > 0 && k == 0 {
			p, op = "*.bin", Pick(r, []int{1, 1, 2, 5})
		}
		// `track /x` while `x` (which covers it) is tracked with a lockable state that needs no change is
		// "already supported": nothing is added, so a later `untrack x` leaves nothing behind for /x either
		covered := func(flag string) bool {
			if !strings.HasPrefix(p, "/") {
				return false
			}
			a, ok := active[strings.TrimPrefix(p, "/")]
			if !ok {
				return false
			}
			if _, own := active[p]; own {
				return false
			}
			return flag == "" || (flag == "l" && a.lockable) || (flag == "u" && !a.lockable)
		}
		if (op == 1 && covered("l")) || (op == 2 && covered("u")) || (op > 2 && covered("")) {
			args = []string{"track", p}
			if op == 1 {
				args = []string{"track", "--lockable", p}
			} else if op == 2 {
				args = []string{"track", "--not-lockable", p}
			}
			op = -1 // the expectation does not change
			c.R.Count("seq.rooted-covered-by-unrooted")
		}
		switch op {
		case -1:
		case 0:
			args = []string{"untrack", p}
			if _, ok := active[p]; ok {
				delete(active, p)
				delete(preTracked, p) // its line is gone; tracked again it is a new line at the end
				for j, o := range order {
					if o == p {
						order = append(order[:j], order[j+1:]...)
						break
					}
				}
			}
		case 1:
			args = []string{"track", "--lockable", p}
			if a, ok := active[p]; ok {
				a.lockable = true
			} else {
				active[p] = &st{true}
				order = append(order, p)
			}
		case 2:
			args = []string{"track", "--not-lockable", p}
			if a, ok := active[p]; ok {
				a.lockable = false
			} else {
				active[p] = &st{false}
				order = append(order, p)
			}
		default:
			args = []string{"track", p}
			if _, ok := active[p]; !ok {
				active[p] = &st{false}
				order = append(order, p)
			}
		}
		out, code := runIn(dir, env, c.Lfs, args...)
		steps = append(steps, strings.Join(args, " "))
		switch {
		case args[0] == "untrack":
			mops = append(mops, "U:"+hx([]byte(p)))
		case len(args) == 3 && args[1] == "--lockable":
			mops = append(mops, "Tl:"+hx([]byte(p)))
		case len(args) == 3 && args[1] == "--not-lockable":
			mops = append(mops, "Tu:"+hx([]byte(p)))
		default:
			mops = append(mops, "Tn:"+hx([]byte(p)))
		}
		enc := fmt.Sprintf("C19 seq pre=%s steps=%s", hx([]byte(pre)), strings.Join(steps, " ; "))
		c.R.Count("seq.step")
		if code == 0 {
			// the lines of the file against the model TrkSeq.run of the same operations
			written, _ := os.ReadFile(filepath.Join(dir, ".gitattributes"))
			add(fmt.Sprintf("C19 seq %s %s", c19Lines(pre, true), strings.Join(mops, ",")), c19Lines(string(written), false), enc)
		}
		if code != 0 {
			c.R.Add(Finding{Kind: "oracle", What: "`git lfs " + args[0] + "` failed on a plain pattern", Case: enc, Impl: clip(out, 200)})
			return
		}
		// the hand-written equivalent
		var sb strings.Builder
		for _, pl := range strings.SplitAfter(pre, "\n") {
			f := strings.Fields(pl)
			if len(f) > 1 && f[1] == "filter=lfs" {
				// a pattern the file tracked from the start: its line stays where it is while the pattern is
				// tracked (with the lock flag asked for), and goes when it is untracked
				if preTracked[f[0]] {
					sb.WriteString("\"" + f[0] + "\" filter=lfs diff=lfs merge=lfs -text")
					if active[f[0]].lockable {
						sb.WriteString(" lockable")
					}
					sb.WriteString("\n")
				}
				continue
			}
			sb.WriteString(pl)
		}
		if pre != "" && !strings.HasSuffix(pre, "\n") {
			sb.WriteString("\n")
		}
		for _, o := range order {
			if preTracked[o] {
				continue
			}
			sb.WriteString("\"" + o + "\" filter=lfs diff=lfs merge=lfs -text")
			if active[o].lockable {
				sb.WriteString(" lockable")
			}
			sb.WriteString("\n")
		}
		os.WriteFile(filepath.Join(spec, ".gitattributes"), []byte(sb.String()), 0o644)
		for _, attr := range []string{"filter", "lockable", "text"} {
			want := checkAttrOf(spec, attr, probes)
			got := checkAttrOf(dir, attr, probes)
			for _, q := range probes {
				if want[q] != got[q] {
					written, _ := os.ReadFile(filepath.Join(dir, ".gitattributes"))
					c.R.Add(Finding{Kind: "oracle", What: "after a sequence of track/untrack operations Git's attribute lookup differs from what the requested patterns denote", Case: enc,
						Impl: fmt.Sprintf("%s of %q: got %q want %q | written=%q | %s", attr, q, got[q], want[q], string(written), strings.TrimSpace(out))})
					return
				}
			}
		}
		c.R.Eval(enc, true)
	}
}

// c19Lines renders .gitattributes text the way the track-sequence model sees it: one entry per line
// that has a field — first field, assigns `filter`, assigns filter=lfs, sets lockable
func c19Lines(text string, withFilterFlag bool) string {
	var out []string
	for _, l := range strings.Split(text, "\n") {
		f := strings.Fields(l)
		if len(f) == 0 {
			continue
		}
		hasF, lfs, lock := false, false, false
		for _, a := range f[1:] {
			switch {
			case a == "filter=lfs":
				hasF, lfs = true, true
			case strings.HasPrefix(a, "filter=") || a == "-filter" || a == "!filter" || a == "filter":
				hasF = true
			case a == "lockable":
				lock = true
			}
		}
		b := func(x bool) string {
			if x {
				return "1"
			}
			return "0"
		}
		pat := strings.Trim(f[0], "\"")
		if withFilterFlag {
			out = append(out, hx([]byte(pat))+":"+b(hasF)+":"+b(lfs)+":"+b(lock))
		} else {
			out = append(out, hx([]byte(pat))+":"+b(lfs)+":"+b(lock))
		}
	}
	return joinOrDash(out)
}

func sameModuloSpace(a, b string) bool {
	ra, rb := []rune(a), []rune(b)
	if len(ra) != len(rb) {
		return false
	}
	for i := range ra {
		if ra[i] == ' ' {
			if !(rb[i] == ' ' || rb[i] == 9 || rb[i] == 10 || rb[i] == 13) { // git's sane_ctype isspace
				return false
			}
		} else if ra[i] != rb[i] {
			return false
		}
	}
	return true
}

func init() { campaigns["C19"] = c19 }

// c19SubdirSequence: track sequences run INSIDE a sub-directory, where `/name` (the file of that name in this
// directory) and `name` (the files of that name anywhere below it) are different patterns although the known
// pattern list spells both `sub/name` (D79).  Judged by `git check-attr` against hand-quoted reference lines.
func c19SubdirSequence(c *Ctx, i int, r *Rng) {
	dir := filepath.Join(c.Work, fmt.Sprintf("c19d-%d", i))
	spec := filepath.Join(c.Work, fmt.Sprintf("c19d-%d-spec", i))
	defer os.RemoveAll(dir)
	defer os.RemoveAll(spec)
	if gitInit(dir) != nil || gitInit(spec) != nil {
		return
	}
	os.MkdirAll(filepath.Join(dir, "sub", "deep"), 0o755)
	os.MkdirAll(filepath.Join(spec, "sub"), 0o755)
	cfgFile := filepath.Join(c.Work, fmt.Sprintf("c19d-%d.gitconfig", i))
	defer os.Remove(cfgFile)
	os.WriteFile(cfgFile, []byte("[user]\n\tname = v\n\temail = v@example.invalid\n"), 0o644)
	env := []string{"GIT_CONFIG_GLOBAL=" + cfgFile, "GIT_LFS_TRACK_NO_INSTALL_HOOKS=1", "PATH=" + filepath.Dir(c.Lfs) + ":" + os.Getenv("PATH")}
	pats := []string{"/data.bin", "data.bin", "*.bin", "/*.bin", "deep/data.bin"}
	probes := []string{"sub/data.bin", "sub/deep/data.bin", "sub/x.bin", "sub/deep/x.bin", "sub/deep/deep/data.bin", "data.bin"}
	type st struct{ lockable bool }
	active := map[string]*st{}
	var order, steps []string
	n := 2 + r.Intn(4)
	for k := 0; k < n; k++ {
		p := Pick(r, pats)
		if k == 1 && r.Chance(50) { // the other spelling of the first step's name
			if strings.HasPrefix(steps[0][strings.LastIndex(steps[0], " ")+1:], "/") {
				p = strings.TrimPrefix(steps[0][strings.LastIndex(steps[0], " ")+1:], "/")
			} else if q := steps[0][strings.LastIndex(steps[0], " ")+1:]; !strings.Contains(q, "/") {
				p = "/" + q
			}
		}
		args := []string{"track", p}
		switch r.Intn(4) {
		case 0:
			args = []string{"track", "--lockable", p}
			if a, ok := active[p]; ok {
				a.lockable = true
			} else {
				active[p] = &st{true}
				order = append(order, p)
			}
		case 1:
			args = []string{"track", "--not-lockable", p}
			if a, ok := active[p]; ok {
				a.lockable = false
			} else {
				active[p] = &st{false}
				order = append(order, p)
			}
		default:
			if _, ok := active[p]; !ok {
				active[p] = &st{false}
				order = append(order, p)
			}
		}
		out, code := runIn(filepath.Join(dir, "sub"), env, c.Lfs, args...)
		steps = append(steps, strings.Join(args, " "))
		enc := fmt.Sprintf("C19 subdir-seq seed=%d idx=%d (in sub/) steps=%s", c.Seed, i, strings.Join(steps, " ; "))
		c.R.Eval(enc, true)
		c.R.Count("subdir-seq.step")
		if code != 0 {
			c.R.Add(Finding{Kind: "oracle", What: "`git lfs track` failed on a plain pattern in a sub-directory", Case: enc, Impl: clip(out, 200)})
			return
		}
		var sb strings.Builder
		for _, o := range order {
			sb.WriteString("\"" + o + "\" filter=lfs diff=lfs merge=lfs -text")
			if active[o].lockable {
				sb.WriteString(" lockable")
			}
			sb.WriteString("\n")
		}
		os.WriteFile(filepath.Join(spec, "sub", ".gitattributes"), []byte(sb.String()), 0o644)
		for _, attr := range []string{"filter", "lockable"} {
			want := checkAttrOf(spec, attr, probes)
			got := checkAttrOf(dir, attr, probes)
			for _, q := range probes {
				if want[q] != got[q] {
					written, _ := os.ReadFile(filepath.Join(dir, "sub", ".gitattributes"))
					c.R.Add(Finding{Kind: "oracle", What: "after track operations run in a sub-directory Git's attribute lookup differs from what the requested patterns denote", Case: enc,
						Impl: fmt.Sprintf("%s of %q: got %q want %q | written=%q | %s", attr, q, got[q], want[q], string(written), strings.TrimSpace(out))})
					return
				}
			}
		}
	}
}
