// C15, the arithmetic of action expiry: tools.IsExpiredAtOrIn (what Action.IsExpiredWithin calls) against
// the model Expiry.expiredWithin, on instants around the moment of the call.  The real function reads the
// clock itself, so every case keeps at least 300 ms between the expiration and the boundary it is judged at.
package main

import (
	"fmt"
	"net/http"
	"time"

	lfserrors "github.com/git-lfs/git-lfs/v3/errors"
	"github.com/git-lfs/git-lfs/v3/tools"
)

func c15Expiry(c *Ctx, r *Rng) {
	n := c.N(400, 8000)
	var lines, impl []string
	for i := 0; i < n; i++ {
		createdMs := -int64(r.Intn(20000))                               // the batch request was made up to 20 s ago
		inS := int64(Pick(r, []int{0, 0, 1, 2, 5, 6, 7, 30, 3600, -30})) // expires_in (0 = absent)
		marginMs := int64(Pick(r, []int{0, 5000, 5000, 1000}))
		atMs := int64(0)
		at := "none"
		var atT time.Time
		switch r.Intn(4) {
		case 0: // no expires_at
		case 1:
			atMs = -int64(1000 + r.Intn(3600000)) // in the past
		case 2:
			atMs = int64(1000 + r.Intn(10000)) // soon
		default:
			atMs = int64(3600000) // far away
		}
		now := time.Now()
		if atMs != 0 {
			at = fmt.Sprint(atMs)
			atT = now.Add(time.Duration(atMs) * time.Millisecond)
		}
		// keep away from the boundary: expiration - (now + margin) must not lie within 300 ms of zero
		exp := atMs
		has := atMs != 0
		if inS != 0 {
			exp, has = createdMs+inS*1000, true
		}
		if has {
			if d := exp - marginMs; d > -300 && d < 300 {
				continue
			}
		}
		_, expired := tools.IsExpiredAtOrIn(now.Add(time.Duration(createdMs)*time.Millisecond), time.Duration(marginMs)*time.Millisecond, atT, time.Duration(inS)*time.Second)
		got := "usable"
		if expired {
			got = "expired"
		}
		line := fmt.Sprintf("C15 expired %d %s %d 0 %d", createdMs, at, inS, marginMs)
		lines = append(lines, line)
		impl = append(impl, got)
		c.R.Eval(line, has)
		c.R.Count("expiry." + got)
	}
	ans, err := c.Or.Ask(lines)
	if err != nil {
		c.R.Add(Finding{Kind: "diff", What: "oracle process failed: " + err.Error(), Broken: "corr.C15.expiry"})
		return
	}
	for i := range lines {
		if ans[i] != impl[i] {
			c.R.Add(Finding{Kind: "diff", What: "action expiry (expires_in before expires_at, margin): model and implementation disagree", Case: lines[i], Impl: impl[i], Model: ans[i], Broken: "corr.C15.expiry"})
		}
	}
}

// c15RetryAfter: what errors.NewRetriableLaterError makes of a Retry-After value — the instant before which the
// queue does not repeat the attempt.  Delta-seconds of every size (a delay too long for a time.Duration is still
// a long delay, D86) and an HTTP-date in each of the three forms a recipient has to accept (RFC 7231 7.1.1.1):
// the instant is never EARLIER than the one the server named.
func c15RetryAfter(c *Ctx, r *Rng) {
	n := c.N(300, 6000)
	for i := 0; i < n; i++ {
		now := time.Now()
		var header string
		var earliest time.Time // the instant the server named (a lower bound for what the client may use)
		switch r.Intn(6) {
		case 0, 1:
			secs := Pick(r, []int64{0, 1, 2, 30, 3600, 86400 * 365, 9223372036, 9223372037, 99999999999, 1 << 62})
			header = fmt.Sprint(secs)
			if secs > 9000000000 {
				secs = 9000000000 // "very far away" is all that can be asked of such a value
			}
			earliest = now.Add(time.Duration(secs) * time.Second)
		case 2:
			t := now.Add(time.Duration(1+r.Intn(5000)) * time.Second).UTC().Truncate(time.Second)
			header, earliest = t.Format(http.TimeFormat), t
		case 3:
			t := now.Add(time.Duration(1+r.Intn(5000)) * time.Second).UTC().Truncate(time.Second)
			header, earliest = t.Format(time.RFC850), t
		case 4:
			t := now.Add(time.Duration(1+r.Intn(5000)) * time.Second).UTC().Truncate(time.Second)
			header, earliest = t.Format(time.ANSIC), t
		default:
			header = Pick(r, []string{"soon", "5.0", " 5", "", "-"})
		}
		enc := fmt.Sprintf("C15 retry-after header=%q", header)
		c.R.Eval(enc, !earliest.IsZero())
		c.R.Count("retry-after")
		e := lfserrors.NewRetriableLaterError(fmt.Errorf("deferred"), header)
		if earliest.IsZero() {
			continue // not a delay at all: the ordinary back-off applies (nil) — nothing to compare
		}
		if e == nil {
			c.R.Add(Finding{Kind: "oracle", What: "a Retry-After value in a form a recipient has to accept is not understood: the attempt is repeated on the ordinary back-off, before the indicated time", Case: enc})
			continue
		}
		at, ok := lfserrors.IsRetriableLaterError(e)
		if !ok {
			continue
		}
		if at.Before(earliest.Add(-2 * time.Second)) {
			c.R.Add(Finding{Kind: "oracle", What: "the instant derived from a Retry-After value lies before the one the server named: the attempt is repeated too early", Case: enc,
				Impl: fmt.Sprintf("derived %s, named %s", at.UTC().Format(time.RFC3339), earliest.UTC().Format(time.RFC3339))})
		}
	}
}
