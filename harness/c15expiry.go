// C15, the arithmetic of action expiry: tools.IsExpiredAtOrIn (what Action.IsExpiredWithin calls) against
// the model Expiry.expiredWithin, on instants around the moment of the call.  The real function reads the
// clock itself, so every case keeps at least 300 ms between the expiration and the boundary it is judged at.
package main

import (
	"fmt"
	"time"

	"github.com/git-lfs/git-lfs/v3/tools"
)

func c15Expiry(c *Ctx, r *Rng) {
	n := c.N(400, 8000)
	var lines, impl []string
	for i := 0; i < n; i++ {
		createdMs := -int64(r.Intn(20000))                  // the batch request was made up to 20 s ago
		inS := int64(Pick(r, []int{0, 0, 1, 2, 5, 6, 7, 30, 3600, -30})) // expires_in (0 = absent)
		marginMs := int64(Pick(r, []int{0, 5000, 5000, 1000}))
		atMs := int64(0)
		at := "none"
		var atT time.Time
		switch r.Intn(4) {
		case 0: // no expires_at
		case 1:
			atMs = -int64(1000 + r.Intn(3600000)) // in the past
		case 2:
			atMs = int64(1000 + r.Intn(10000)) // soon
		default:
			atMs = int64(3600000) // far away
		}
		now := time.Now()
		if atMs != 0 {
			at = fmt.Sprint(atMs)
			atT = now.Add(time.Duration(atMs) * time.Millisecond)
		}
		// keep away from the boundary: expiration - (now + margin) must not lie within 300 ms of zero
		exp := atMs
		has := atMs != 0
		if inS != 0 {
			exp, has = createdMs+inS*1000, true
		}
		if has {
			if d := exp - marginMs; d > -300 && d < 300 {
				continue
			}
		}
		_, expired := tools.IsExpiredAtOrIn(now.Add(time.Duration(createdMs)*time.Millisecond), time.Duration(marginMs)*time.Millisecond, atT, time.Duration(inS)*time.Second)
		got := "usable"
		if expired {
			got = "expired"
		}
		line := fmt.Sprintf("C15 expired %d %s %d 0 %d", createdMs, at, inS, marginMs)
		lines = append(lines, line)
		impl = append(impl, got)
		c.R.Eval(line, has)
		c.R.Count("expiry." + got)
	}
	ans, err := c.Or.Ask(lines)
	if err != nil {
		c.R.Add(Finding{Kind: "diff", What: "oracle process failed: " + err.Error(), Broken: "corr.C15.expiry"})
		return
	}
	for i := range lines {
		if ans[i] != impl[i] {
			c.R.Add(Finding{Kind: "diff", What: "action expiry (expires_in before expires_at, margin): model and implementation disagree", Case: lines[i], Impl: impl[i], Model: ans[i], Broken: "corr.C15.expiry"})
		}
	}
}
