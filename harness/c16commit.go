// C16, the commit hook on the commits that have no single parent to compare with: the very first commit
// of a repository, and a merge concluded by `git commit`.  A lockable file that such a commit adds and
// whose lock the user does not hold is read-only afterwards, like after any other commit.
package main

import (
	"fmt"
	"os"
	"path/filepath"
	"strings"
)

func c16CommitHook(c *Ctx, r *Rng) {
	n := c.N(12, 150)
	for i := 0; i < n; i++ {
		base := filepath.Join(c.Work, fmt.Sprintf("c16c-%d", i))
		os.MkdirAll(base, 0o755)
		srv := newLfsServer()
		w, err := newScenRepo(c, filepath.Join(base, "w"), srv)
		if err != nil {
			srv.srv.Close()
			os.RemoveAll(base)
			continue
		}
		kind := Pick(r, []string{"root", "root", "second", "merge-by-commit"})
		names := []string{"a.dat", "dir/c.dat", "my file.dat", "t.txt"}
		var added []string
		var steps []string
		write := func(fs ...string) {
			for _, f := range fs {
				w.write(f, r.Bytes(30))
			}
		}
		attrs := "*.dat filter=lfs diff=lfs merge=lfs -text lockable\n*.txt lockable\n"
		switch kind {
		case "root":
			w.write(".gitattributes", []byte(attrs))
			k := 1 + r.Intn(len(names))
			added = names[:k]
			write(added...)
			write("plain.md")
			w.git("add", "-A")
			_, code := w.git("commit", "-qm", "first")
			steps = append(steps, fmt.Sprintf("first commit adds %v -> %d", added, code))
		case "second":
			w.write(".gitattributes", []byte(attrs))
			w.git("add", "-A")
			w.git("commit", "-qm", "attrs")
			k := 1 + r.Intn(len(names))
			added = names[:k]
			write(added...)
			w.git("add", "-A")
			_, code := w.git("commit", "-qm", "second")
			steps = append(steps, fmt.Sprintf("second commit adds %v -> %d", added, code))
		case "merge-by-commit":
			w.write(".gitattributes", []byte(attrs))
			write("plain.md")
			w.git("add", "-A")
			w.git("commit", "-qm", "attrs")
			w.git("checkout", "-q", "-b", "side")
			k := 1 + r.Intn(len(names))
			added = names[:k]
			write(added...)
			w.git("add", "-A")
			w.git("commit", "-qm", "side work")
			w.git("checkout", "-q", "master")
			w.write("plain.md", r.Bytes(10))
			w.git("commit", "-qam", "master work")
			// the files arrive writable, as a user who works on a merge leaves them
			w.git("merge", "--no-ff", "--no-commit", "side")
			for _, f := range added {
				os.Chmod(filepath.Join(w.dir, f), 0o644)
			}
			_, code := w.git("commit", "-qm", "merge concluded by hand")
			steps = append(steps, fmt.Sprintf("merge --no-commit of a branch adding %v, then commit -> %d", added, code))
		}
		enc := fmt.Sprintf("C16 commit-hook seed=%d idx=%d kind=%s steps=%s", c.Seed, i, kind, strings.Join(steps, " ; "))
		c.R.Eval(enc, true)
		c.R.Count("commit-hook." + kind)
		for _, f := range added {
			fi, err := os.Stat(filepath.Join(w.dir, f))
			if err != nil {
				continue
			}
			if fi.Mode().Perm()&0o200 != 0 {
				c.R.Add(Finding{Kind: "oracle", What: "a lockable file is writable after the commit hook although the current user does not hold its lock", Case: enc, Impl: f + " (added by a " + kind + " commit)"})
				break
			}
		}
		// the model's list of files the hook re-examines (PostCommit.changed), from the trees as Git has them
		{
			pathID := map[string]int{}
			blobID := map[string]int{}
			tree := func(rev string) string {
				out, code := w.git("ls-tree", "-r", "-z", rev)
				if code != 0 {
					return "-"
				}
				var es []string
				for _, e := range strings.Split(out, "\x00") {
					tab := strings.SplitN(e, "\t", 2)
					f := strings.Fields(tab[0])
					if len(tab) != 2 || len(f) != 3 {
						continue
					}
					if _, ok := pathID[tab[1]]; !ok {
						pathID[tab[1]] = len(pathID) + 1
					}
					if _, ok := blobID[f[2]]; !ok {
						blobID[f[2]] = len(blobID) + 1
					}
					es = append(es, fmt.Sprintf("%d:%d", pathID[tab[1]], blobID[f[2]]))
				}
				return joinOrDash(es)
			}
			plist, _ := w.git("rev-list", "--parents", "-n", "1", "HEAD")
			pf := strings.Fields(plist)
			parents := "none"
			if len(pf) > 1 {
				var ps []string
				for _, pr := range pf[1:] {
					ps = append(ps, tree(pr))
				}
				parents = strings.Join(ps, ";")
			}
			line := fmt.Sprintf("C16 changed %s %s", parents, tree("HEAD"))
			if ans, err := c.Or.Ask([]string{line}); err == nil {
				listed := map[int]bool{}
				if ans[0] != "-" {
					for _, t := range strings.Split(ans[0], ",") {
						var n int
						fmt.Sscan(t, &n)
						listed[n] = true
					}
				}
				// observable: a lockable file (no lock is held) is read-only afterwards exactly when it is listed;
				// every file the scenario touches was writable before the commit
				for _, f := range names {
					fi, err := os.Stat(filepath.Join(w.dir, f))
					if err != nil {
						continue
					}
					ro := fi.Mode().Perm()&0o200 == 0
					if ro != listed[pathID[f]] {
						c.R.Add(Finding{Kind: "diff", What: "which files the commit hook re-examines: model and implementation disagree", Case: enc,
							Impl: fmt.Sprintf("%s read-only=%v", f, ro), Model: fmt.Sprintf("listed=%v <= %s", listed[pathID[f]], clip(line, 300)), Broken: "corr.C16.commit-hook"})
					}
				}
				c.R.Count("commit-hook.model-compared")
			}
		}
		if fi, err := os.Stat(filepath.Join(w.dir, "plain.md")); err == nil && fi.Mode().Perm()&0o200 == 0 {
			c.R.Add(Finding{Kind: "oracle", What: "a file that is not lockable was made read-only", Case: enc, Impl: "plain.md"})
		}
		srv.srv.Close()
		os.RemoveAll(base)
		os.Remove(filepath.Join(base, "w.gitconfig"))
	}
}
