// C16, the commit hook on the commits that have no single parent to compare with: the very first commit
// of a repository, and a merge concluded by `git commit`.  A lockable file that such a commit adds and
// whose lock the user does not hold is read-only afterwards, like after any other commit.
package main

import (
	"fmt"
	"os"
	"path/filepath"
	"strings"
)

func c16CommitHook(c *Ctx, r *Rng) {
	n := c.N(12, 150)
	for i := 0; i < n; i++ {
		base := filepath.Join(c.Work, fmt.Sprintf("c16c-%d", i))
		os.MkdirAll(base, 0o755)
		srv := newLfsServer()
		w, err := newScenRepo(c, filepath.Join(base, "w"), srv)
		if err != nil {
			srv.srv.Close()
			os.RemoveAll(base)
			continue
		}
		kind := Pick(r, []string{"root", "root", "second", "merge-by-commit"})
		names := []string{"a.dat", "dir/c.dat", "my file.dat", "t.txt"}
		var added []string
		var steps []string
		write := func(fs ...string) {
			for _, f := range fs {
				w.write(f, r.Bytes(30))
			}
		}
		attrs := "*.dat filter=lfs diff=lfs merge=lfs -text lockable\n*.txt lockable\n"
		switch kind {
		case "root":
			w.write(".gitattributes", []byte(attrs))
			k := 1 + r.Intn(len(names))
			added = names[:k]
			write(added...)
			write("plain.md")
			w.git("add", "-A")
			_, code := w.git("commit", "-qm", "first")
			steps = append(steps, fmt.Sprintf("first commit adds %v -> %d", added, code))
		case "second":
			w.write(".gitattributes", []byte(attrs))
			w.git("add", "-A")
			w.git("commit", "-qm", "attrs")
			k := 1 + r.Intn(len(names))
			added = names[:k]
			write(added...)
			w.git("add", "-A")
			_, code := w.git("commit", "-qm", "second")
			steps = append(steps, fmt.Sprintf("second commit adds %v -> %d", added, code))
		case "merge-by-commit":
			w.write(".gitattributes", []byte(attrs))
			write("plain.md")
			w.git("add", "-A")
			w.git("commit", "-qm", "attrs")
			w.git("checkout", "-q", "-b", "side")
			k := 1 + r.Intn(len(names))
			added = names[:k]
			write(added...)
			w.git("add", "-A")
			w.git("commit", "-qm", "side work")
			w.git("checkout", "-q", "master")
			w.write("plain.md", r.Bytes(10))
			w.git("commit", "-qam", "master work")
			// the files arrive writable, as a user who works on a merge leaves them
			w.git("merge", "--no-ff", "--no-commit", "side")
			for _, f := range added {
				os.Chmod(filepath.Join(w.dir, f), 0o644)
			}
			_, code := w.git("commit", "-qm", "merge concluded by hand")
			steps = append(steps, fmt.Sprintf("merge --no-commit of a branch adding %v, then commit -> %d", added, code))
		}
		enc := fmt.Sprintf("C16 commit-hook seed=%d idx=%d kind=%s steps=%s", c.Seed, i, kind, strings.Join(steps, " ; "))
		c.R.Eval(enc, true)
		c.R.Count("commit-hook." + kind)
		for _, f := range added {
			fi, err := os.Stat(filepath.Join(w.dir, f))
			if err != nil {
				continue
			}
			if fi.Mode().Perm()&0o200 != 0 {
				c.R.Add(Finding{Kind: "oracle", What: "a lockable file is writable after the commit hook although the current user does not hold its lock", Case: enc, Impl: f + " (added by a " + kind + " commit)"})
				break
			}
		}
		if fi, err := os.Stat(filepath.Join(w.dir, "plain.md")); err == nil && fi.Mode().Perm()&0o200 == 0 {
			c.R.Add(Finding{Kind: "oracle", What: "a file that is not lockable was made read-only", Case: enc, Impl: "plain.md"})
		}
		srv.srv.Close()
		os.RemoveAll(base)
		os.Remove(filepath.Join(base, "w.gitconfig"))
	}
}
