// C14: filter-process speaks valid protocol, equals the one-shot filters, delays complete.
// The harness plays Git: it drives the real `git-lfs filter-process` binary over pkt-line with random
// request programs, parses every answer with its own pkt-line parser against the protocol grammar,
// and serves the LFS API for delayed downloads.
package main

import (
	"bufio"
	"bytes"
	"encoding/json"
	"fmt"
	"io"
	"net/http"
	"net/http/httptest"
	"os"
	"os/exec"
	"path/filepath"
	"sort"
	"strings"
	"sync"
	"time"
)

const specMaxPacket = 65516 // gitprotocol-common: maximum data per pkt-line (Spec constant)

type pkt struct {
	Flush bool
	Data  []byte
}

func writePkt(w io.Writer, data []byte) error {
	_, err := fmt.Fprintf(w, "%04x", len(data)+4)
	if err == nil {
		_, err = w.Write(data)
	}
	return err
}
func writeFlush(w io.Writer) error { _, err := io.WriteString(w, "0000"); return err }
func writeList(w io.Writer, lines ...string) error {
	for _, l := range lines {
		if err := writePkt(w, []byte(l+"\n")); err != nil {
			return err
		}
	}
	return writeFlush(w)
}

var errPktEOF = fmt.Errorf("eof")

func readPkt(r *bufio.Reader) (pkt, error) {
	var hdr [4]byte
	if _, err := io.ReadFull(r, hdr[:]); err != nil {
		return pkt{}, errPktEOF
	}
	var n int
	if _, err := fmt.Sscanf(string(hdr[:]), "%04x", &n); err != nil {
		return pkt{}, fmt.Errorf("malformed pkt-line header %q", hdr[:])
	}
	if n == 0 {
		return pkt{Flush: true}, nil
	}
	if n < 4 {
		return pkt{}, fmt.Errorf("pkt-line length %d", n)
	}
	if n-4 > specMaxPacket {
		return pkt{}, fmt.Errorf("packet of %d data bytes exceeds the maximum of %d", n-4, specMaxPacket)
	}
	b := make([]byte, n-4)
	if _, err := io.ReadFull(r, b); err != nil {
		return pkt{}, fmt.Errorf("truncated packet")
	}
	return pkt{Data: b}, nil
}

// readGroup: packets up to the next flush
func readGroup(r *bufio.Reader) ([][]byte, error) {
	var out [][]byte
	for {
		p, err := readPkt(r)
		if err != nil {
			return out, err
		}
		if p.Flush {
			return out, nil
		}
		out = append(out, p.Data)
	}
}

type fpObject struct {
	Content []byte
	Where   string // local | server | missing | failing
}

type fpReq struct {
	Cmd        string `json:"cmd"` // clean | smudge | list | retrieve
	Path       string `json:"path"`
	CanDelay   bool   `json:"can_delay"`
	Obj        int    `json:"obj"` // index into objects for smudge of a pointer (-1: raw payload)
	Payload    []byte `json:"-"`
	PayloadHex string `json:"payload"`
	PktSize    int    `json:"pktsize"` // how the payload is packetised
}

type fpProgram struct {
	Objects  []fpObject
	Reqs     []fpReq
	Delay    bool // announce capability=delay
	SkipErrs bool // lfs.skipdownloaderrors
	Batch    int  // lfs.transfer.batchsize (0 = default 100)
}

type fpServer struct {
	mu   sync.Mutex
	objs map[string]fpObject // by oid
	srv  *httptest.Server
	reqs []string // raw batch bodies (C18 reuse)
}

func newFpServer() *fpServer {
	s := &fpServer{objs: map[string]fpObject{}}
	s.srv = httptest.NewServer(http.HandlerFunc(func(w http.ResponseWriter, r *http.Request) {
		if strings.HasSuffix(r.URL.Path, "/objects/batch") {
			body, _ := io.ReadAll(r.Body)
			var req struct {
				Objects []struct {
					Oid  string `json:"oid"`
					Size int64  `json:"size"`
				} `json:"objects"`
			}
			json.Unmarshal(body, &req)
			s.mu.Lock()
			s.reqs = append(s.reqs, string(body))
			type act struct {
				Href string `json:"href"`
			}
			type oerr struct {
				Code    int    `json:"code"`
				Message string `json:"message"`
			}
			type obj struct {
				Oid     string         `json:"oid"`
				Size    int64          `json:"size"`
				Actions map[string]act `json:"actions,omitempty"`
				Error   *oerr          `json:"error,omitempty"`
			}
			out := struct {
				Transfer string `json:"transfer"`
				Objects  []obj  `json:"objects"`
			}{Transfer: "basic", Objects: []obj{}}
			for _, o := range req.Objects {
				ob := obj{Oid: o.Oid, Size: o.Size}
				if so, ok := s.objs[o.Oid]; ok && so.Where != "missing" {
					ob.Actions = map[string]act{"download": {Href: s.srv.URL + "/storage/" + o.Oid}}
				} else {
					ob.Error = &oerr{404, "object not found"}
				}
				out.Objects = append(out.Objects, ob)
			}
			s.mu.Unlock()
			w.Header().Set("Content-Type", "application/vnd.git-lfs+json")
			json.NewEncoder(w).Encode(out)
			return
		}
		if strings.HasPrefix(r.URL.Path, "/storage/") {
			oid := strings.TrimPrefix(r.URL.Path, "/storage/")
			s.mu.Lock()
			so, ok := s.objs[oid]
			s.mu.Unlock()
			if !ok || so.Where == "failing" {
				w.WriteHeader(500)
				return
			}
			w.Write(so.Content)
			return
		}
		w.WriteHeader(404)
	}))
	return s
}

type fpSession struct {
	dir    string
	cmd    *exec.Cmd
	in     io.WriteCloser
	out    *bufio.Reader
	stderr *bytes.Buffer
	done   chan error
}

func startFilterProcess(c *Ctx, dir string, delay bool) (*fpSession, string) {
	return startFilterProcessEnv(c, dir, delay, nil)
}

func startFilterProcessEnv(c *Ctx, dir string, delay bool, extraEnv []string) (*fpSession, string) {
	s := &fpSession{dir: dir, stderr: &bytes.Buffer{}}
	s.cmd = exec.Command(c.Lfs, "filter-process")
	s.cmd.Dir = dir
	s.cmd.Env = append(append(os.Environ(), "GIT_TERMINAL_PROMPT=0"), extraEnv...)
	s.cmd.Stderr = s.stderr
	s.in, _ = s.cmd.StdinPipe()
	op, _ := s.cmd.StdoutPipe()
	s.out = bufio.NewReaderSize(op, 1<<20)
	if err := s.cmd.Start(); err != nil {
		return nil, err.Error()
	}
	s.done = make(chan error, 1)
	go func() { s.done <- s.cmd.Wait() }()
	// handshake
	writeList(s.in, "git-filter-client", "version=2")
	g, err := readGroup(s.out)
	if err != nil || len(g) != 2 || string(g[0]) != "git-filter-server\n" || string(g[1]) != "version=2\n" {
		return s, fmt.Sprintf("bad welcome: %q %v", g, err)
	}
	caps := []string{"capability=clean", "capability=smudge"}
	if delay {
		caps = append(caps, "capability=delay")
	}
	writeList(s.in, caps...)
	g, err = readGroup(s.out)
	if err != nil {
		return s, "no capability answer"
	}
	var got []string
	for _, x := range g {
		got = append(got, strings.TrimSuffix(string(x), "\n"))
	}
	sort.Strings(got)
	want := append([]string(nil), caps...)
	sort.Strings(want)
	if strings.Join(got, ",") != strings.Join(want, ",") {
		return s, fmt.Sprintf("capabilities answered %v for %v", got, caps)
	}
	return s, ""
}

func (s *fpSession) exitCode(wait time.Duration) (int, bool) {
	select {
	case err := <-s.done:
		s.done <- err
		if err == nil {
			return 0, true
		}
		if ee, ok := err.(*exec.ExitError); ok {
			return ee.ExitCode(), true
		}
		return -1, true
	case <-time.After(wait):
		return 0, false
	}
}

type fpAnswer struct {
	Status  string // first status (or "" for list)
	Content []byte
	Final   string   // trailing status ("" = empty list)
	Paths   []string // list_available_blobs
	Died    bool
	Problem string // grammar violation found by the independent parser
	MaxPkt  int
}

func (s *fpSession) send(r fpReq) error {
	switch r.Cmd {
	case "list":
		return writeList(s.in, "command=list_available_blobs")
	case "retrieve":
		if err := writeList(s.in, "command=smudge", "pathname="+r.Path); err != nil {
			return err
		}
		return writeFlush(s.in)
	}
	hdr := []string{"command=" + r.Cmd, "pathname=" + r.Path}
	if r.Cmd == "smudge" && r.CanDelay {
		hdr = append(hdr, "can-delay=1")
	}
	if err := writeList(s.in, hdr...); err != nil {
		return err
	}
	p := r.Payload
	sz := r.PktSize
	if sz <= 0 || sz > specMaxPacket {
		sz = specMaxPacket
	}
	for len(p) > 0 {
		n := sz
		if n > len(p) {
			n = len(p)
		}
		if err := writePkt(s.in, p[:n]); err != nil {
			return err
		}
		p = p[n:]
	}
	return writeFlush(s.in)
}

func statusOf(g [][]byte) (string, string) {
	if len(g) == 0 {
		return "", ""
	}
	if len(g) != 1 || !strings.HasPrefix(string(g[0]), "status=") || !strings.HasSuffix(string(g[0]), "\n") {
		return "", fmt.Sprintf("expected a single status=… line, got %q", g)
	}
	return strings.TrimSuffix(strings.TrimPrefix(string(g[0]), "status="), "\n"), ""
}

// recv parses one answer against the grammar of the protocol (gitattributes(5), long running filter process)
func (s *fpSession) recv(r fpReq) fpAnswer {
	var a fpAnswer
	g, err := readGroup(s.out)
	if err == errPktEOF {
		a.Died = true
		return a
	} else if err != nil {
		a.Problem = err.Error()
		return a
	}
	if r.Cmd == "list" {
		for _, x := range g {
			l := string(x)
			if !strings.HasPrefix(l, "pathname=") || !strings.HasSuffix(l, "\n") {
				a.Problem = fmt.Sprintf("list_available_blobs: bad line %q", l)
				return a
			}
			a.Paths = append(a.Paths, strings.TrimSuffix(strings.TrimPrefix(l, "pathname="), "\n"))
		}
		g2, err := readGroup(s.out)
		if err == errPktEOF {
			a.Died = true
			return a
		} else if err != nil {
			a.Problem = err.Error()
			return a
		}
		a.Final, a.Problem = statusOf(g2)
		if a.Problem == "" && a.Final != "success" {
			a.Problem = "list_available_blobs not followed by status=success"
		}
		return a
	}
	st, prob := statusOf(g)
	if prob != "" || st == "" {
		a.Problem = "missing first status: " + prob
		return a
	}
	a.Status = st
	if st == "delayed" || st == "error" || st == "abort" {
		return a
	}
	if st != "success" {
		a.Problem = "unknown status " + st
		return a
	}
	content, err := readGroup(s.out)
	if err == errPktEOF {
		a.Died = true
		return a
	} else if err != nil {
		a.Problem = err.Error()
		return a
	}
	for _, x := range content {
		if len(x) > a.MaxPkt {
			a.MaxPkt = len(x)
		}
		if len(x) == 0 {
			a.Problem = "empty data packet inside content"
		}
		a.Content = append(a.Content, x...)
	}
	g3, err := readGroup(s.out)
	if err == errPktEOF {
		a.Died = true
		return a
	} else if err != nil {
		a.Problem = err.Error()
		return a
	}
	a.Final, prob = statusOf(g3)
	if prob != "" {
		a.Problem = "trailing status: " + prob
	}
	return a
}

func (p fpProgram) encode() string {
	type eo struct {
		Content string `json:"content"`
		Where   string `json:"where"`
	}
	var os_ []eo
	for _, o := range p.Objects {
		os_ = append(os_, eo{hx(o.Content), o.Where})
	}
	rs := make([]fpReq, len(p.Reqs))
	for i, r := range p.Reqs {
		r.PayloadHex = hx(r.Payload)
		rs[i] = r
	}
	b, _ := json.Marshal(map[string]interface{}{"objects": os_, "reqs": rs, "delay": p.Delay, "skiperrs": p.SkipErrs, "batch": p.Batch})
	return "FP " + string(b)
}

func decodeFpProgram(s string) (fpProgram, bool) {
	var p fpProgram
	if !strings.HasPrefix(s, "FP ") {
		return p, false
	}
	var raw struct {
		Objects []struct {
			Content string `json:"content"`
			Where   string `json:"where"`
		} `json:"objects"`
		Reqs     []fpReq `json:"reqs"`
		Delay    bool    `json:"delay"`
		SkipErrs bool    `json:"skiperrs"`
		Batch    int     `json:"batch"`
	}
	if json.Unmarshal([]byte(s[3:]), &raw) != nil {
		return p, false
	}
	for _, o := range raw.Objects {
		p.Objects = append(p.Objects, fpObject{unhx(o.Content), o.Where})
	}
	for _, r := range raw.Reqs {
		r.Payload = unhx(r.PayloadHex)
		p.Reqs = append(p.Reqs, r)
	}
	p.Delay, p.SkipErrs, p.Batch = raw.Delay, raw.SkipErrs, raw.Batch
	return p, true
}

func genFpProgram(r *Rng, c *Ctx) fpProgram {
	p := fpProgram{Delay: r.Chance(65), SkipErrs: r.Chance(50)}
	if r.Chance(12) {
		// directed: a checkout of MANY files that all have to be downloaded, several batches' worth of them
		// (small lfs.transfer.batchsize), every one delayed — the downloads finish while Git keeps asking
		p = fpProgram{Delay: true, SkipErrs: false, Batch: Pick(r, []int{1, 2, 3})}
		n := 2*p.Batch + 2 + r.Intn(8)
		for i := 0; i < n; i++ {
			p.Objects = append(p.Objects, fpObject{Content: r.Bytes(Pick(r, []int{5, 300, 5000})), Where: "server"})
			o := p.Objects[i]
			p.Reqs = append(p.Reqs, fpReq{Cmd: "smudge", Path: fmt.Sprintf("dir/f%d.bin", i), Obj: i, CanDelay: true, PktSize: 65516,
				Payload: canonicalPointer(sha(o.Content), int64(len(o.Content)))})
		}
		return p
	}
	nobj := 1 + r.Intn(5)
	for i := 0; i < nobj; i++ {
		sz := Pick(r, []int{1, 5, 300, 1023, 1024, 1025, 5000, 65515, 65516, 65517, 70000})
		if c.Tier == "thorough" && r.Chance(5) {
			sz = 1 << 20
		}
		where := Pick(r, []string{"local", "local", "server", "server", "server", "missing", "failing"})
		if r.Chance(8) {
			// on the server, and at its path in local storage a file of ANOTHER SIZE (what an interrupted copy or a
			// damaged disk leaves): the one-shot filter discards that file and downloads
			where = "stale"
		}
		p.Objects = append(p.Objects, fpObject{Content: r.Bytes(sz), Where: where})
	}
	n := 1 + r.Intn(12)
	if r.Chance(10) {
		n = 20 + r.Intn(20)
	}
	for i := 0; i < n; i++ {
		rq := fpReq{Path: fmt.Sprintf("dir/f%d.bin", i), Obj: -1, PktSize: Pick(r, []int{1, 7, 100, 1023, 1024, 1025, 4096, 65515, 65516, 65516, 65516})}
		switch r.Intn(10) {
		case 0, 1, 2: // clean of content
			rq.Cmd = "clean"
			rq.Payload, _ = genPayload(r, nil)
			if len(rq.Payload) > 20000 && rq.PktSize < 100 {
				rq.PktSize = 4096
			}
		case 3: // clean of a pointer (pass-through)
			rq.Cmd = "clean"
			rq.Payload = samplePointerText(r, r.Bool())
		case 4: // smudge of a non-pointer
			rq.Cmd = "smudge"
			rq.CanDelay = p.Delay && r.Bool()
			rq.Payload, _ = genPayload(r, nil)
			if _, isPtr := isPointerText(rq.Payload); isPtr {
				rq.Payload = []byte("plain text, not a pointer\n")
			}
			if r.Chance(12) {
				// far more than the pipes between Git and the filter hold (a raw file committed at a tracked path)
				big := r.Bytes(Pick(r, []int{300000, 700000}))
				if r.Bool() {
					big = append(canonicalPointer(sha(big), int64(len(big))), big...) // begins like a pointer
				}
				rq.Payload = big
				rq.PktSize = 65516
			}
			if len(rq.Payload) > 20000 && rq.PktSize < 100 {
				rq.PktSize = 4096
			}
		default: // smudge of a pointer to one of the objects
			rq.Cmd = "smudge"
			rq.Obj = r.Intn(nobj)
			rq.CanDelay = p.Delay && r.Chance(80)
			o := p.Objects[rq.Obj]
			rq.Payload = canonicalPointer(sha(o.Content), int64(len(o.Content)))
		}
		p.Reqs = append(p.Reqs, rq)
	}
	return p
}

func c14(c *Ctx) {
	r := NewRng(c.Seed ^ 0xC14)
	n := c.N(300, 5000)
	c.R.Rule = "cases = request programs (1..40 requests: clean, smudge with/without can-delay of pointers and non-pointers, then list_available_blobs rounds and retrievals as Git's client grammar dictates) x payload packetisation (1 byte .. 65516 per packet) x objects {local, on server, missing, failing} x delay capability x lfs.skipdownloaderrors, against the real `git-lfs filter-process`; non-trivial = program with >= 1 delayed smudge or >= 2 packets of payload; distinct = different encoded program"
	if c.Replay == "" {
		c14SkipEquivalence(c, r.Fork())
	}
	var progs []fpProgram
	for _, l := range corpusLines(c, "C14") {
		if p, ok := decodeFpProgram(l); ok {
			progs = append(progs, p)
		}
	}
	if c.Replay != "" {
		progs = nil
		if p, ok := decodeFpProgram(replayCase(c)); ok {
			progs = append(progs, p)
		}
		n = 0
	}
	for i := 0; i < n; i++ {
		progs = append(progs, genFpProgram(r, c))
	}
	var mu sync.Mutex
	var mlines, mimpl, mcase []string
	var wg sync.WaitGroup
	sem := make(chan struct{}, 8)
	for pi, p := range progs {
		wg.Add(1)
		sem <- struct{}{}
		go func(pi int, p fpProgram) {
			defer wg.Done()
			defer func() { <-sem }()
			ml, mi := runFpProgram(c, pi, p)
			mu.Lock()
			for k := range ml {
				mlines = append(mlines, ml[k])
				mimpl = append(mimpl, mi[k])
				mcase = append(mcase, p.encode())
			}
			mu.Unlock()
		}(pi, p)
	}
	wg.Wait()
	model, err := c.Or.Ask(mlines)
	if err != nil {
		c.R.Add(Finding{Kind: "diff", What: "oracle process failed: " + err.Error(), Broken: "corr.C14.step"})
		return
	}
	for i := range mlines {
		if model[i] != mimpl[i] {
			c.R.Add(Finding{Kind: "diff", What: "filter-process request: model and implementation disagree", Case: clip(mcase[i], 3000), Impl: mimpl[i], Model: model[i] + "  <= " + clip(mlines[i], 200), Broken: "corr.C14.step"})
		}
	}
}

// runFpProgram plays one program; returns model lines and the implementation's observations.
func runFpProgram(c *Ctx, pi int, p fpProgram) (mlines, mimpl []string) {
	enc := p.encode()
	dir := filepath.Join(c.Work, fmt.Sprintf("fp%d", pi))
	defer os.RemoveAll(dir)
	if err := gitInit(dir); err != nil {
		c.R.Add(Finding{Kind: "diff", What: err.Error(), Broken: "corr.C14.step"})
		return
	}
	srv := newFpServer()
	defer srv.srv.Close()
	git := func(args ...string) { exec.Command("git", append([]string{"-C", dir}, args...)...).Run() }
	git("config", "lfs.url", srv.srv.URL)
	git("config", "lfs.transfer.maxretries", "1")
	git("config", "lfs.transfer.maxretrydelay", "0")
	git("config", "lfs.concurrenttransfers", "3")
	if p.Batch > 0 {
		git("config", "lfs.transfer.batchsize", fmt.Sprint(p.Batch))
	}
	if p.SkipErrs {
		git("config", "lfs.skipdownloaderrors", "true")
	}
	local := map[string][]byte{} // objects in local storage (harness's view)
	for _, o := range p.Objects {
		oid := sha(o.Content)
		srv.objs[oid] = o
		if o.Where == "local" {
			pth := filepath.Join(dir, ".git", "lfs", "objects", oid[0:2], oid[2:4], oid)
			os.MkdirAll(filepath.Dir(pth), 0o755)
			os.WriteFile(pth, o.Content, 0o644)
			local[oid] = o.Content
		}
		if o.Where == "stale" {
			pth := filepath.Join(dir, ".git", "lfs", "objects", oid[0:2], oid[2:4], oid)
			os.MkdirAll(filepath.Dir(pth), 0o755)
			os.WriteFile(pth, append(append([]byte(nil), o.Content...), 'x'), 0o644)
		}
	}
	sess, prob := startFilterProcess(c, dir, p.Delay)
	if prob != "" {
		c.R.Add(Finding{Kind: "oracle", What: "handshake: " + prob, Case: clip(enc, 3000)})
		return
	}
	defer func() { sess.in.Close(); sess.exitCode(3 * time.Second); sess.cmd.Process.Kill() }()
	nontrivial := false
	delayed := map[string]int{}   // path -> object index, delayed and not yet retrieved
	announced := map[string]int{} // path -> times announced
	everDelayed := map[string]bool{}
	fail := func(what, impl string) {
		c.R.Add(Finding{Kind: "oracle", What: what, Case: clip(enc, 3000), Impl: clip(impl, 400)})
	}
	died := false
	exchange := func(rq fpReq) (fpAnswer, bool) {
		// Git writes the whole request before it reads a byte of the answer: a filter that answers before it
		// has read everything blocks both sides for good — the deadline covers the sending as well
		ch := make(chan fpAnswer, 1)
		sendFailed := make(chan struct{}, 1)
		go func() {
			if err := sess.send(rq); err != nil {
				sendFailed <- struct{}{}
				return
			}
			ch <- sess.recv(rq)
		}()
		select {
		case <-sendFailed:
			died = true
			return fpAnswer{Died: true}, false
		case a := <-ch:
			return a, true
		case <-time.After(25 * time.Second):
			fail("no answer to a "+rq.Cmd+" request within the deadline", "")
			sess.cmd.Process.Kill()
			died = true
			return fpAnswer{}, false
		}
	}
	// expected behaviour of one request, from the bytes and the object table alone
	handle := func(rq fpReq) {
		if len(rq.Payload) > rq.PktSize && rq.PktSize > 0 {
			nontrivial = true
		}
		a, ok := exchange(rq)
		if !ok {
			return
		}
		c.R.Count("req." + rq.Cmd)
		obs := fmt.Sprintf("status=%s content=%s final=%s", a.Status, shaOrDash(a.Content), a.Final)
		if a.Died {
			died = true
			code, exited := sess.exitCode(5 * time.Second)
			// D22 (known finding): an object that cannot be downloaded makes smudge() exit(2) mid-exchange
			isUndownloadable := false
			if (rq.Cmd == "smudge" || rq.Cmd == "retrieve") && !p.SkipErrs {
				oi := rq.Obj
				if rq.Cmd == "retrieve" {
					oi = delayed[rq.Path]
				}
				if oi >= 0 && oi < len(p.Objects) && (p.Objects[oi].Where == "missing" || p.Objects[oi].Where == "failing") {
					isUndownloadable = true
				}
			}
			if isUndownloadable && exited && code == 2 {
				c.R.Count("died.D22")
				c.R.Add(Finding{Kind: "oracle", What: "the filter exits (status 2) in the middle of an exchange when an object cannot be downloaded", Case: clip(enc, 3000), Sig: "D22", Impl: obs})
			} else {
				fail(fmt.Sprintf("the filter process died while answering a %s request (exit %d)", rq.Cmd, code), obs+" stderr="+clip(sess.stderr.String(), 200))
			}
			return
		}
		if a.Problem != "" {
			fail("malformed answer to a "+rq.Cmd+" request: "+a.Problem, obs)
			died = true
			return
		}
		if a.MaxPkt > specMaxPacket {
			fail("a content packet exceeds the maximum pkt-line length", obs)
		}
		switch rq.Cmd {
		case "clean":
			want := rq.Payload
			if _, isPtr := isPointerText(rq.Payload); !isPtr && len(rq.Payload) > 0 {
				want = canonicalPointer(sha(rq.Payload), int64(len(rq.Payload)))
				local[sha(rq.Payload)] = rq.Payload
			}
			if a.Status != "success" || (a.Final != "" && a.Final != "success") {
				fail("clean request not answered with success", obs)
			} else if !bytes.Equal(a.Content, want) {
				fail("filter-process clean content differs from what the one-shot clean filter returns for the same bytes", obs)
			}
			mlines = append(mlines, fmt.Sprintf("C14 clean %s", hx(rq.Payload)))
			mimpl = append(mimpl, fmt.Sprintf("status=%s content=%s final=%s", a.Status, shaOrDash(a.Content), orDash(a.Final)))
		case "smudge", "retrieve":
			oi := rq.Obj
			payload := rq.Payload
			if rq.Cmd == "retrieve" {
				oi = delayed[rq.Path]
				payload = canonicalPointer(sha(p.Objects[oi].Content), int64(len(p.Objects[oi].Content)))
			}
			ptr, isPtr := isPointerText(payload)
			if !isPtr {
				if a.Status != "success" || !bytes.Equal(a.Content, payload) {
					fail("smudge of bytes that are not a pointer did not pass them through unchanged", obs)
				}
				mlines = append(mlines, fmt.Sprintf("C14 smudge 0 none 0 - %s", hx(payload)))
				mimpl = append(mimpl, fmt.Sprintf("status=%s content=%s final=%s", a.Status, shaOrDash(a.Content), orDash(a.Final)))
				return
			}
			obj := p.Objects[oi]
			_, isLocal := local[ptr.Oid]
			where := obj.Where // `stale` goes to the model as it is (FP.Where.stale)
			if isLocal {
				where = "local"
			}
			if rq.Cmd == "smudge" && rq.CanDelay && !isLocal {
				if a.Status != "delayed" {
					fail("a smudge with can-delay=1 of an object that is not local was not delayed", obs)
				} else {
					delayed[rq.Path] = oi
					everDelayed[rq.Path] = true
					nontrivial = true
				}
			} else {
				if a.Status == "delayed" {
					fail("a smudge was delayed although the object is local or delay was not offered", obs)
					return
				}
				switch where {
				case "local", "server", "stale":
					if a.Status != "success" || !bytes.Equal(a.Content, obj.Content) || (a.Final != "" && a.Final != "success") {
						fail("smudge did not return the object's bytes", obs)
					} else {
						local[ptr.Oid] = obj.Content
					}
				default: // undownloadable with lfs.skipdownloaderrors: the pointer text is returned
					if !bytes.Equal(a.Content, payload) {
						fail("smudge of an undownloadable object (skipdownloaderrors) did not return the pointer text", obs)
					}
				}
				if rq.Cmd == "retrieve" {
					delete(delayed, rq.Path)
				}
			}
			cd := "0"
			if rq.Cmd == "smudge" && rq.CanDelay {
				cd = "1"
			}
			sk := "0"
			if p.SkipErrs {
				sk = "1"
			}
			mlines = append(mlines, fmt.Sprintf("C14 smudge %s %s %s %s %s", cd, where, sk, sha(obj.Content), hx(payload)))
			mimpl = append(mimpl, fmt.Sprintf("status=%s content=%s final=%s", a.Status, shaOrDash(a.Content), orDash(a.Final)))
		}
	}
	for _, rq := range p.Reqs {
		if died {
			break
		}
		handle(rq)
	}
	// Git's side of the delay protocol: ask until the list is empty, retrieving what is announced
	if !died && len(everDelayed) > 0 {
		for round := 0; round < 200 && !died; round++ {
			a, ok := exchange(fpReq{Cmd: "list"})
			if !ok {
				break
			}
			c.R.Count("req.list")
			if a.Died {
				fail("the filter process died while answering list_available_blobs", clip(sess.stderr.String(), 300))
				died = true
				break
			}
			if a.Problem != "" {
				fail("malformed answer to list_available_blobs: "+a.Problem, "")
				died = true
				break
			}
			if len(a.Paths) == 0 {
				break
			}
			for _, pth := range a.Paths {
				announced[pth]++
				if _, ok := delayed[pth]; !ok {
					fail("list_available_blobs announced a path that is not a pending delayed blob", pth)
					continue
				}
				if died {
					break
				}
				handle(fpReq{Cmd: "retrieve", Path: pth, Obj: -1})
			}
			if round == 199 {
				fail("the list of available blobs never became empty", "")
			}
		}
		if !died {
			for pth := range everDelayed {
				if announced[pth] != 1 {
					fail(fmt.Sprintf("a delayed blob was announced %d times (expected exactly once)", announced[pth]), pth)
				}
			}
		}
	}
	if !died {
		sess.in.Close()
		if code, exited := sess.exitCode(10 * time.Second); !exited {
			fail("the filter did not exit after Git closed the pipe", "")
		} else if code != 0 {
			fail(fmt.Sprintf("the filter exited with status %d after a clean end of input", code), clip(sess.stderr.String(), 300))
		}
	}
	c.R.Eval(enc, nontrivial)
	if pi%40 == 0 {
		var cmds []string
		for _, rq := range p.Reqs {
			cmds = append(cmds, fmt.Sprintf("%s(%d bytes/%d per pkt, delay=%v, obj=%d)", rq.Cmd, len(rq.Payload), rq.PktSize, rq.CanDelay, rq.Obj))
		}
		var ws []string
		for _, o := range p.Objects {
			ws = append(ws, fmt.Sprintf("%s:%d", o.Where, len(o.Content)))
		}
		c.R.Sample(map[string]interface{}{"requests": cmds, "objects": ws, "delay_capability": p.Delay, "skipdownloaderrors": p.SkipErrs, "delayed_paths": len(everDelayed)})
	}
	return
}

func init() { campaigns["C14"] = c14 }

// c14SkipEquivalence: paths that are NOT to be smudged (GIT_LFS_SKIP_SMUDGE=1, lfs.fetchexclude, a non-matching
// lfs.fetchinclude) while their objects sit in local storage: the long-running filter — asked with and without
// can-delay — answers with exactly what the one-shot `git lfs smudge` writes for the same pointer and path.
func c14SkipEquivalence(c *Ctx, r *Rng) {
	n := c.N(12, 200)
	for i := 0; i < n; i++ {
		dir := filepath.Join(c.Work, fmt.Sprintf("fpskip%d", i))
		if gitInit(dir) != nil {
			continue
		}
		git := func(args ...string) { exec.Command("git", append([]string{"-C", dir}, args...)...).Run() }
		git("config", "lfs.url", "http://127.0.0.1:1/none")
		how := Pick(r, []string{"env-skip", "env-skip", "fetchexclude", "fetchinclude-other", "none"})
		var env []string
		switch how {
		case "env-skip":
			env = []string{"GIT_LFS_SKIP_SMUDGE=1"}
		case "fetchexclude":
			git("config", "lfs.fetchexclude", "skipped/*")
		case "fetchinclude-other":
			git("config", "lfs.fetchinclude", "wanted/*")
		}
		type item struct {
			path    string
			content []byte
			ptr     []byte
		}
		var items []item
		for k := 0; k < 3; k++ {
			b := r.Bytes(Pick(r, []int{0, 14, 700, 5000}))
			pth := Pick(r, []string{"skipped/a.bin", "wanted/b.bin", "c.bin"})
			if len(b) > 0 {
				o := sha(b)
				op := filepath.Join(dir, ".git", "lfs", "objects", o[0:2], o[2:4], o)
				os.MkdirAll(filepath.Dir(op), 0o755)
				os.WriteFile(op, b, 0o644)
			}
			ptr := canonicalPointer(sha(b), int64(len(b)))
			if len(b) == 0 {
				ptr = []byte("version https://git-lfs.github.com/spec/v1\noid sha256:" + sha(b) + "\nsize 0\n")
			}
			items = append(items, item{pth, b, ptr})
		}
		delayCap := r.Chance(70)
		sess, prob := startFilterProcessEnv(c, dir, delayCap, env)
		if prob != "" {
			os.RemoveAll(dir)
			continue
		}
		for _, it := range items {
			enc := fmt.Sprintf("C14 skip-equivalence seed=%d idx=%d how=%s path=%s size=%d delay-capability=%v", c.Seed, i, how, it.path, len(it.content), delayCap)
			c.R.Eval(enc, how != "none")
			c.R.Count("skip-equivalence." + how)
			// the one-shot filter
			cmd := exec.Command(c.Lfs, "smudge", "--", it.path)
			cmd.Dir = dir
			cmd.Env = append(append(os.Environ(), "GIT_TERMINAL_PROMPT=0"), env...)
			cmd.Stdin = bytes.NewReader(it.ptr)
			one, oerr := cmd.Output()
			if oerr != nil {
				continue
			}
			for _, cd := range []bool{false, true} {
				if cd && !delayCap {
					continue
				}
				rq := fpReq{Cmd: "smudge", Path: it.path, CanDelay: cd, Payload: it.ptr}
				if sess.send(rq) != nil {
					break
				}
				a := sess.recv(rq)
				if a.Status == "delayed" {
					c.R.Add(Finding{Kind: "oracle", What: "a smudge was delayed although the object is in local storage", Case: enc, Impl: "can-delay=1"})
					continue
				}
				// the model's answer for this request (SmudgeSkip): wanted = not skipped and allowed by the fetch filters
				wanted := how == "none" || (how == "fetchexclude" && !strings.HasPrefix(it.path, "skipped/")) || (how == "fetchinclude-other" && strings.HasPrefix(it.path, "wanted/"))
				b01 := func(x bool) string {
					if x {
						return "1"
					}
					return "0"
				}
				if ans, err := c.Or.Ask([]string{"C14 skipsmudge " + b01(cd) + " " + b01(wanted) + " 1"}); err == nil && len(ans) == 1 && len(it.content) > 0 {
					got := "other"
					switch {
					case bytes.Equal(a.Content, it.content):
						got = "content"
					case bytes.Equal(a.Content, it.ptr):
						got = "pointer"
					}
					c.R.Count("skip-equivalence.model")
					if got != ans[0] {
						c.R.Add(Finding{Kind: "diff", What: "smudge of a pointer whose object is local: model (SmudgeSkip) and implementation disagree on pointer-or-content", Case: enc,
							Impl: fmt.Sprintf("can-delay=%v: %s", cd, got), Model: ans[0], Broken: "corr.C14.skip"})
					}
				}
				if a.Status != "success" || !bytes.Equal(a.Content, one) {
					c.R.Add(Finding{Kind: "oracle", What: "the long-running filter's answer to a smudge differs from what the one-shot smudge filter writes for the same pointer and path", Case: enc,
						Impl: fmt.Sprintf("can-delay=%v: status=%s, %d bytes (sha %s); one-shot: %d bytes (sha %s)", cd, a.Status, len(a.Content), sha(a.Content)[:12], len(one), sha(one)[:12])})
				}
			}
		}
		sess.in.Close()
		sess.exitCode(2 * time.Second)
		os.RemoveAll(dir)
	}
}
