// C03: a successful push leaves every referenced object on the server.
// Random histories built with the real git and the real clean filter, pushed in random order and
// partition through the real pre-push hook (or `git lfs push`) to a bare repository + the fake LFS
// server; after every push that exits 0 the harness walks the remote's refs with plumbing and checks
// the server's object store.
package main

import (
	"fmt"
	"os"
	"path/filepath"
	"sort"
	"strings"
	"sync"
)

// pushExcluded mirrors PushM.excluded (checked against the Lean model at the end of the campaign)
func pushExcluded(cached, actual map[string]string) []string {
	var sk, all []string
	var names []string
	for n := range cached {
		names = append(names, n)
	}
	sort.Strings(names)
	for _, n := range names {
		all = append(all, cached[n])
		if _, ok := actual[n]; ok {
			sk = append(sk, cached[n])
		}
	}
	if len(sk) == 0 {
		return all
	}
	return sk
}

var c03ModelMu sync.Mutex
var c03ModelLines, c03ModelImpl []string

func recordExclModel(cached, actual map[string]string, got []string) {
	idx := map[string]int{}
	id := func(sha string) int {
		if _, ok := idx[sha]; !ok {
			idx[sha] = len(idx) + 1
		}
		return idx[sha]
	}
	enc := func(m map[string]string) string {
		var names []string
		for n := range m {
			names = append(names, n)
		}
		sort.Strings(names)
		var p []string
		for _, n := range names {
			p = append(p, fmt.Sprintf("%s:%d", hx([]byte(n)), id(m[n])))
		}
		if len(p) == 0 {
			return "-"
		}
		return strings.Join(p, ",")
	}
	line := fmt.Sprintf("C03 excl %s %s", enc(cached), enc(actual))
	var g []string
	for _, s := range got {
		g = append(g, fmt.Sprint(id(s)))
	}
	sort.Strings(g)
	c03ModelMu.Lock()
	c03ModelLines = append(c03ModelLines, line)
	c03ModelImpl = append(c03ModelImpl, strings.Join(g, ","))
	c03ModelMu.Unlock()
}

type pushScenario struct {
	Seed  uint64
	Steps []string // human-readable log of the operations, for the replay file
}

// serverInvariant: every pointer in every commit of `commits` (nil = everything reachable from the
// remote's refs) is on the server
func serverInvariant(remoteDir string, env []string, srv *lfsServer, commits []string, known map[string]bool) (missing []string, checked int) {
	if commits == nil {
		commits = revList(remoteDir, env, "--all")
	}
	seen := map[string]bool{}
	for k := range known { // objects that commits already on the remote referenced before this push
		seen[k] = true
	}
	for _, cm := range commits {
		for _, tp := range pointersAt(remoteDir, env, cm) {
			k := tp.Oid
			if seen[k] {
				continue
			}
			seen[k] = true
			checked++
			srv.mu.Lock()
			b, ok := srv.objs[tp.Oid]
			srv.mu.Unlock()
			if !ok {
				missing = append(missing, fmt.Sprintf("%s (%s in %s) absent", tp.Oid[:12], tp.Path, cm))
			} else if sha(b) != tp.Oid || int64(len(b)) != tp.Size {
				missing = append(missing, fmt.Sprintf("%s (%s) present with the wrong content", tp.Oid[:12], tp.Path))
			}
		}
	}
	sort.Strings(missing)
	return
}

func remoteRefs(remoteDir string, env []string) string {
	out, _ := runIn(remoteDir, env, "git", "for-each-ref", "--format=%(refname) %(objectname)")
	return out
}

func c03Scenario(c *Ctx, idx int, r *Rng) {
	base := filepath.Join(c.Work, fmt.Sprintf("c03-%d", idx))
	defer os.RemoveAll(base)
	defer os.Remove(base + "/w.gitconfig")
	os.MkdirAll(base, 0o755)
	type c03Remote struct {
		name     string
		dir      string
		srv      *lfsServer
		bypassed bool // the user bypassed the hook at least once for this remote (then only the delta of each push is judged)
	}
	var remotes []*c03Remote
	nremotes := 1
	if r.Chance(35) {
		nremotes = 2 + r.Intn(2)
	}
	for k := 0; k < nremotes; k++ {
		rm := &c03Remote{name: []string{"origin", "backup", "third"}[k], dir: filepath.Join(base, fmt.Sprintf("remote%d.git", k)), srv: newLfsServer()}
		defer rm.srv.srv.Close()
		if r.Chance(20) {
			// the first upload action this server offers for an object has already lapsed (or lapses within
			// the client's safety margin): the client has to ask again, not to take the object for stored
			rm.srv.lapseUploads = true
			c.R.Count("remote.lapsed-upload-actions")
		}
		runIn(base, nil, "git", "init", "-q", "--bare", rm.dir)
		remotes = append(remotes, rm)
	}
	w, err := newScenRepo(c, filepath.Join(base, "w"), remotes[0].srv)
	if err != nil {
		c.R.Add(Finding{Kind: "diff", What: "scenario setup: " + err.Error(), Broken: "corr.C03.scenario"})
		return
	}
	for _, rm := range remotes {
		w.git("remote", "add", rm.name, rm.dir)
		if nremotes > 1 { // every remote has its own LFS store
			w.git("config", "remote."+rm.name+".lfsurl", rm.srv.srv.URL)
		}
	}
	if nremotes > 1 {
		w.git("config", "--unset", "lfs.url")
	}
	batch := Pick(r, []int{1, 2, 3, 100})
	w.git("config", "lfs.transfer.batchsize", fmt.Sprint(batch))
	var steps []string
	log := func(f string, a ...interface{}) { steps = append(steps, fmt.Sprintf(f, a...)) }
	log("batchsize=%d remotes=%d", batch, nremotes)
	w.write(".gitattributes", []byte("*.bin filter=lfs diff=lfs merge=lfs -text\n*.dat filter=lfs -text\n"))
	w.git("add", ".gitattributes")
	w.git("commit", "-qm", "attrs")
	contents := [][]byte{}
	newContent := func() []byte {
		b := r.Bytes(Pick(r, []int{1, 30, 1023, 1024, 1500, 5000}))
		contents = append(contents, b)
		if r.Chance(4) { // the storage server will refuse this object
			rm := Pick(r, remotes)
			rm.srv.mu.Lock()
			rm.srv.putFail[sha(b)] = Pick(r, []int{422, 500, 403})
			rm.srv.mu.Unlock()
			log("server of %s refuses %s", rm.name, sha(b)[:8])
		} else if r.Chance(4) { // the storage server acknowledges the upload and loses it; its verify call-back says so
			rm := Pick(r, remotes)
			rm.srv.mu.Lock()
			rm.srv.putLose[sha(b)] = true
			rm.srv.mu.Unlock()
			log("server of %s loses %s after acknowledging it", rm.name, sha(b)[:8])
			c.R.Count("server.loses-acknowledged-upload")
		}
		return b
	}
	files := []string{"a.bin", "b.bin", "dir/c.bin", "d.dat", "dir/sub/e.bin"}
	if r.Chance(18) {
		// somebody else holds locks on some of the files and lock verification is NOT configured for the server
		// (the "unknown" state): the locks are worth a warning only — the push goes through, and then every object
		// has to be on the server, those of the locked paths included
		for _, rm := range remotes {
			rm.srv.mu.Lock()
			for k, f := range files {
				if r.Chance(40) {
					rm.srv.locks = append(rm.srv.locks, lfsLock{ID: fmt.Sprintf("B%d", k), Path: f, Owner: "bob"})
				}
			}
			rm.srv.user = "alice"
			rm.srv.mu.Unlock()
		}
		log("locks of another user on the server, locksverify unset")
		c.R.Count("push.others-locks-verification-unknown")
	}
	branches := []string{"master"}
	tags := 0
	commit := func(msg string) {
		w.git("add", "-A")
		w.git("commit", "-qm", msg, "--allow-empty")
	}
	nops := 3 + r.Intn(8)
	pushed := 0
	fail := func(what, impl string) {
		c.R.Add(Finding{Kind: "oracle", What: what, Case: fmt.Sprintf("C03 scen seed=%d idx=%d steps=%s", c.Seed, idx, strings.Join(steps, " ; ")), Impl: clip(impl, 600)})
	}
	newObjectsReachable := false
	reach := func(remote string) map[string]bool {
		m := map[string]bool{}
		for _, cm := range revList(remote, w.env, "--all") {
			m[cm] = true
		}
		return m
	}
	// classify a missing object against the known findings D23 / D24: it is referenced by a commit
	// reachable from a cached remote-tracking ref whose name the remote now lists at ANOTHER sha (D23),
	// or no cached ref name is left on the remote at all (D24: the unverified `--remotes` fallback)
	classify := func(oid string, cached, actual map[string]string) string {
		if len(cached) == 0 {
			return ""
		}
		anyVerified := false
		for name := range cached {
			if _, ok := actual[name]; ok {
				anyVerified = true
			}
		}
		for name, sha := range cached {
			refs := false
			for _, cm := range revList(w.dir, w.env, sha) {
				for _, tp := range pointersAt(w.dir, w.env, cm) {
					if tp.Oid == oid {
						refs = true
					}
				}
			}
			if !refs {
				continue
			}
			if cur, ok := actual[name]; ok && cur != sha {
				return "D23"
			}
			if !anyVerified {
				return "D24"
			}
		}
		return ""
	}
	refMap := func(dir, prefix string) map[string]string {
		out, _ := runIn(dir, w.env, "git", "for-each-ref", "--format=%(refname) %(objectname)", prefix)
		m := map[string]string{}
		for _, l := range strings.Split(strings.TrimSpace(out), "\n") {
			f := strings.Fields(l)
			if len(f) == 2 {
				m[strings.TrimPrefix(f[0], prefix)] = f[1]
			}
		}
		return m
	}
	doPush := func() {
		rm := Pick(r, remotes)
		remote, srv, bypassed := rm.dir, rm.srv, rm.bypassed
		before := remoteRefs(remote, w.env)
		reachBefore := reach(remote)
		cached := refMap(w.dir, "refs/remotes/"+rm.name+"/")
		actual := refMap(remote, "refs/heads/")
		var args []string
		kind := r.Intn(11)
		if kind == 10 {
			kind = 8
		}
		var out string
		var code int
		switch {
		case kind < 5:
			br := Pick(r, branches)
			args = []string{"push", rm.name, br}
			if r.Chance(20) {
				args = []string{"push", "-f", rm.name, br}
			}
		case kind < 7:
			args = []string{"push", rm.name, "--all"}
		case kind < 8:
			args = []string{"push", rm.name, "--tags"}
		case kind < 9 && len(branches) > 1 && len(actual) > 0 && r.Chance(75):
			// ONE push that deletes a ref on the remote and updates or creates others: the hook reads one line
			// per ref, deletions (all-zero local id) among them, in the remote's name order with new refs last
			var dels []string
			for nme := range actual {
				dels = append(dels, nme)
			}
			sort.Strings(dels)
			args = []string{"push", rm.name}
			if len(dels) > 0 {
				args = append(args, ":"+Pick(r, dels))
				c.R.Count("push.kind.delete-and-update")
			}
			for k := 0; k < 1+r.Intn(2); k++ {
				args = append(args, Pick(r, branches))
			}
		case kind < 9 && len(branches) > 1:
			args = []string{"push", rm.name, branches[0], branches[len(branches)-1]}
		default:
			args = []string{"push", rm.name, "HEAD"}
		}
		log("git %s", strings.Join(args, " "))
		// expected upload set for a single-branch push, from the model's exclusion + git's own rev-list
		var expectPut map[string]bool
		if len(args) == 3 && args[0] == "push" && args[2] != "--all" && args[2] != "--tags" && args[2] != "HEAD" {
			br := args[2]
			local := w.must("rev-parse", br)
			excl := pushExcluded(cached, actual)
			recordExclModel(cached, actual, excl)
			rl := []string{"--objects", local, "--not"}
			if rs, ok := actual[br]; ok && rs != local {
				if _, c2 := w.git("cat-file", "-e", rs+"^{commit}"); c2 == 0 {
					rl = append(rl, rs)
				}
			}
			for _, e := range excl {
				if _, c2 := w.git("cat-file", "-e", e+"^{commit}"); c2 == 0 {
					rl = append(rl, e)
				}
			}
			expectPut = map[string]bool{}
			for _, l := range revList(w.dir, w.env, rl...) {
				f := strings.Fields(l)
				if len(f) == 0 {
					continue
				}
				typ, _ := w.git("cat-file", "-t", f[0])
				if strings.TrimSpace(typ) != "blob" {
					continue
				}
				szs, _ := w.git("cat-file", "-s", f[0])
				var sz int
				fmt.Sscan(strings.TrimSpace(szs), &sz)
				if sz >= cutSpec || sz == 0 {
					continue
				}
				blob, _ := w.git("cat-file", "blob", f[0])
				if p, ok := isPointerText([]byte(blob)); ok && p.Size > 0 {
					srv.mu.Lock()
					_, have := srv.objs[p.Oid]
					srv.mu.Unlock()
					if !have {
						expectPut[p.Oid] = true
					}
				}
			}
		}
		srv.mu.Lock()
		nreqBefore := len(srv.reqs)
		srv.mu.Unlock()
		out, code = w.git(args...)
		if expectPut != nil && code == 0 {
			gotPut := map[string]bool{}
			srv.mu.Lock()
			for _, rq := range srv.reqs[nreqBefore:] {
				if rq.Kind == "storage-put" {
					gotPut[strings.TrimPrefix(rq.Path, "/storage/")] = true
				}
			}
			srv.mu.Unlock()
			if strings.Join(sortedKeys(gotPut), ",") != strings.Join(sortedKeys(expectPut), ",") {
				c.R.Add(Finding{Kind: "diff", What: "the set of uploaded objects differs from the model's (exclusion model + git rev-list)", Broken: "corr.C03.uploadset",
					Case: fmt.Sprintf("C03 scen seed=%d idx=%d steps=%s", c.Seed, idx, strings.Join(steps, " ; ")),
					Impl: "uploaded " + clip(strings.Join(sortedKeys(gotPut), ","), 300), Model: "expected " + clip(strings.Join(sortedKeys(expectPut), ","), 300)})
			}
			c.R.Count("uploadset.compared")
		}
		pushed++
		c.R.Count("push")
		after := remoteRefs(remote, w.env)
		if code == 0 {
			c.R.Count("push.ok")
			var delta []string
			for cm := range reach(remote) {
				if !reachBefore[cm] {
					delta = append(delta, cm)
				}
			}
			sort.Strings(delta)
			commits := delta
			var known map[string]bool
			if !bypassed {
				commits = nil // nothing was ever bypassed: the whole remote must satisfy the invariant
			} else {
				// after a bypass only what THIS push made reachable is judged: objects that commits
				// already on the remote referenced are the bypasser's responsibility
				known = map[string]bool{}
				for cm := range reachBefore {
					for _, tp := range pointersAt(remote, w.env, cm) {
						known[tp.Oid] = true
					}
				}
			}
			missing, checked := serverInvariant(remote, w.env, srv, commits, known)
			missingOid := map[string]string{}
			for _, m := range missing {
				short := strings.Fields(m)[0]
				for _, cm := range delta {
					for _, tp := range pointersAt(remote, w.env, cm) {
						if strings.HasPrefix(tp.Oid, short) {
							missingOid[m] = tp.Oid
						}
					}
				}
			}
			if checked > 0 {
				newObjectsReachable = true
			}
			if len(missing) > 0 {
				sig := ""
				for _, m := range missing {
					s1 := classify(missingOid[m], cached, actual)
					if s1 == "" {
						sig = ""
						break
					}
					sig = s1
				}
				c.R.Add(Finding{Kind: "oracle", What: "after a successful push an LFS object referenced by a commit that became reachable on the remote is not on the server", Sig: sig,
					Case: fmt.Sprintf("C03 scen seed=%d idx=%d steps=%s", c.Seed, idx, strings.Join(steps, " ; ")), Impl: clip(strings.Join(missing, ", ")+" | "+out, 600)})
			}
		} else {
			c.R.Count("push.fail")
			if before != after {
				// a partially updated remote is acceptable only if the invariant still holds
				if missing, _ := serverInvariant(remote, w.env, srv, nil, nil); len(missing) > 0 && !bypassed {
					fail("a push failed but refs were updated on the remote with objects missing on the server", strings.Join(missing, ", "))
				}
			}
		}
	}
	// `git lfs push <remote> <ref>...` run directly, one or several refs in one command: after it succeeds
	// every pointer introduced by a commit reachable from a NAMED ref and from no remote-tracking ref of
	// that remote names an object the server holds — whatever the other refs named beside it
	doLfsPush := func() {
		rm := Pick(r, remotes)
		n := 1 + r.Intn(3)
		var refs []string
		for k := 0; k < n; k++ {
			b := Pick(r, branches)
			dup := false
			for _, x := range refs {
				dup = dup || x == b
			}
			if !dup {
				refs = append(refs, b)
			}
		}
		if tags > 0 && r.Chance(25) {
			refs = append(refs, fmt.Sprintf("t%d", 1+r.Intn(tags)))
		}
		args := append([]string{"lfs", "push", rm.name}, refs...)
		log("git %s", strings.Join(args, " "))
		rl := append([]string{"--objects"}, refs...)
		rl = append(rl, "--not", "--remotes="+rm.name)
		want := map[string]bool{}
		for _, l := range revList(w.dir, w.env, rl...) {
			f := strings.Fields(l)
			if len(f) == 0 {
				continue
			}
			typ, _ := w.git("cat-file", "-t", f[0])
			if strings.TrimSpace(typ) != "blob" {
				continue
			}
			szs, _ := w.git("cat-file", "-s", f[0])
			var sz int
			fmt.Sscan(strings.TrimSpace(szs), &sz)
			if sz >= cutSpec || sz == 0 {
				continue
			}
			blob, _ := w.git("cat-file", "blob", f[0])
			if p, ok := isPointerText([]byte(blob)); ok && p.Size > 0 {
				want[p.Oid] = true
			}
		}
		out, code := w.git(args...)
		c.R.Count(fmt.Sprintf("lfspush.refs.%d", len(refs)))
		if code != 0 {
			c.R.Count("lfspush.fail")
			return
		}
		c.R.Count("lfspush.ok")
		var missing []string
		rm.srv.mu.Lock()
		for oid := range want {
			if _, have := rm.srv.objs[oid]; !have {
				missing = append(missing, oid[:12])
			}
		}
		rm.srv.mu.Unlock()
		sort.Strings(missing)
		c.R.Count(fmt.Sprintf("lfspush.objects.%d", min(len(want), 9)))
		if len(missing) > 0 {
			fail("`git lfs push` of the named refs succeeded but an object they reference (and no remote-tracking ref does) is not on the server", strings.Join(missing, ", ")+" | "+out)
		}
	}
	for op := 0; op < nops; op++ {
		switch r.Intn(16) {
		case 12: // the user bypasses the hook: refs reach the remote without their LFS objects
			if r.Chance(50) {
				br := Pick(r, branches)
				rm := Pick(r, remotes)
				w.git("push", "--no-verify", "-q", rm.name, br)
				rm.bypassed = true
				log("git push --no-verify %s %s", rm.name, br)
			}
		case 13: // somebody else force-moves a branch on the remote behind this client's back
			remote := Pick(r, remotes).dir
			act := refMap(remote, "refs/heads/")
			if len(act) > 0 && r.Chance(60) {
				var names []string
				for n := range act {
					names = append(names, n)
				}
				sort.Strings(names)
				nme := Pick(r, names)
				// an unrelated commit created directly in the bare repository
				tree, _ := runIn(remote, w.env, "git", "mktree")
				newc, _ := runIn(remote, w.env, "sh", "-c", "echo other | git commit-tree "+strings.TrimSpace(tree))
				runIn(remote, w.env, "git", "update-ref", "refs/heads/"+nme, strings.TrimSpace(newc))
				log("remote: force-move %s", nme)
			}
		case 14: // somebody deletes a branch on the remote
			remote := Pick(r, remotes).dir
			act := refMap(remote, "refs/heads/")
			if len(act) > 0 && r.Chance(50) {
				var names []string
				for n := range act {
					names = append(names, n)
				}
				sort.Strings(names)
				nme := Pick(r, names)
				runIn(remote, w.env, "git", "update-ref", "-d", "refs/heads/"+nme)
				log("remote: delete %s", nme)
			}
		case 0, 1, 2, 3: // add / modify files
			k := 1 + r.Intn(3)
			for j := 0; j < k; j++ {
				f := Pick(r, files)
				if r.Chance(20) && len(contents) > 0 {
					w.write(f, Pick(r, contents)) // duplicate content under another path
				} else {
					w.write(f, newContent())
				}
			}
			commit(fmt.Sprintf("c%d", op))
			log("commit")
		case 4: // delete / rename
			f := Pick(r, files)
			if r.Bool() {
				w.git("rm", "-q", "--ignore-unmatch", f)
			} else {
				w.git("mv", "-k", f, f+".moved.bin")
			}
			commit(fmt.Sprintf("rm%d", op))
			log("rm/mv %s", f)
		case 5: // new branch
			b := fmt.Sprintf("br%d", len(branches))
			w.git("checkout", "-q", "-b", b)
			branches = append(branches, b)
			log("branch %s", b)
		case 6: // switch branch
			b := Pick(r, branches)
			w.git("checkout", "-q", b)
			log("checkout %s", b)
		case 7: // merge
			if len(branches) > 1 {
				b := Pick(r, branches)
				w.git("merge", "-q", "--no-edit", "-X", "ours", b)
				log("merge %s", b)
			}
		case 8: // tag
			tags++
			if r.Bool() {
				w.git("tag", fmt.Sprintf("t%d", tags))
			} else {
				w.git("tag", "-a", "-m", "x", fmt.Sprintf("t%d", tags))
			}
			log("tag t%d", tags)
		case 15:
			doLfsPush()
		case 9: // move a file out of LFS tracking (raw content committed under an untracked name)
			w.write("raw.txt", newContent())
			commit("raw")
			log("raw file")
		default:
			doPush()
		}
	}
	doPush()
	// a final push of everything: afterwards the invariant must hold for all refs
	for _, rm := range remotes {
		log("git push %s --all", rm.name)
		if _, code := w.git("push", rm.name, "--all"); code == 0 && !rm.bypassed {
			if missing, _ := serverInvariant(rm.dir, w.env, rm.srv, nil, nil); len(missing) > 0 {
				fail("after `git push --all` succeeded an object referenced on the remote is not on the server", strings.Join(missing, ", "))
			}
		}
	}
	enc := fmt.Sprintf("C03 scen seed=%d idx=%d", c.Seed, idx)
	c.R.Eval(enc, newObjectsReachable)
	nreq := 0
	for _, rm := range remotes {
		rm.srv.mu.Lock()
		c.R.Count(fmt.Sprintf("server.objects.%d", min(len(rm.srv.objs), 9)))
		nreq += len(rm.srv.reqs)
		rm.srv.mu.Unlock()
	}
	c.R.Count(fmt.Sprintf("remotes.%d", nremotes))
	if idx%10 == 0 {
		c.R.Sample(map[string]interface{}{"steps": steps, "requests_captured": nreq, "pushes": pushed})
	}
}

// c03LfsPushRefs: `git lfs push <remote> <ref>...` with SEVERAL refs in one command whose histories are nested
// in and fork from one another, some of them already on the remote (a remote-tracking ref exists), most not:
// after it succeeds every object referenced by a commit reachable from a named ref and from no
// remote-tracking ref is on the server — whatever else was named beside it and in whatever order.
func c03LfsPushRefs(c *Ctx, idx int, r *Rng) {
	base := filepath.Join(c.Work, fmt.Sprintf("c03r-%d", idx))
	defer os.RemoveAll(base)
	os.MkdirAll(base, 0o755)
	srv := newLfsServer()
	defer srv.srv.Close()
	remote := filepath.Join(base, "remote.git")
	runIn(base, nil, "git", "init", "-q", "--bare", remote)
	w, err := newScenRepo(c, filepath.Join(base, "w"), srv)
	if err != nil {
		return
	}
	w.git("remote", "add", "origin", remote)
	w.write(".gitattributes", []byte("*.bin filter=lfs -text\n"))
	w.git("add", ".gitattributes")
	w.git("commit", "-qm", "attrs")
	var steps []string
	log := func(f string, a ...interface{}) { steps = append(steps, fmt.Sprintf(f, a...)) }
	refs := []string{"master"}
	oidsOf := map[string][]string{} // commit label -> oids introduced
	nfile := 0
	addCommit := func() {
		k := 1 + r.Intn(2)
		for j := 0; j < k; j++ {
			nfile++
			w.write(fmt.Sprintf("f%d.bin", nfile), r.Bytes(40+nfile))
		}
		w.git("add", "-A")
		w.git("commit", "-qm", fmt.Sprintf("c%d", nfile))
	}
	addCommit()
	nb := 2 + r.Intn(3)
	for b := 1; b <= nb; b++ {
		from := Pick(r, refs)
		if r.Chance(60) {
			from = refs[len(refs)-1] // a chain: each branch contains the one before
		}
		name := fmt.Sprintf("br%d", b)
		w.git("checkout", "-q", "-b", name, from)
		if !r.Chance(15) { // sometimes a branch at the very commit of another
			addCommit()
		}
		refs = append(refs, name)
		log("%s from %s", name, from)
	}
	if r.Chance(40) {
		t := Pick(r, refs)
		w.git("tag", "t1", t)
		log("tag t1 at %s", t)
		refs = append(refs, "t1")
	}
	_ = oidsOf
	if r.Chance(35) { // one of the branches is already on the remote
		b := Pick(r, refs[:1+r.Intn(len(refs))])
		if b != "t1" {
			if _, code := w.git("push", "-q", "origin", b); code == 0 {
				log("git push origin %s", b)
			}
		}
	}
	for i := len(refs) - 1; i > 0; i-- {
		j := r.Intn(i + 1)
		refs[i], refs[j] = refs[j], refs[i]
	}
	named := refs[:1+r.Intn(len(refs))]
	if r.Chance(50) {
		named = refs
	}
	rl := append([]string{"--objects"}, named...)
	rl = append(rl, "--not", "--remotes=origin")
	want := map[string]bool{}
	for _, l := range revList(w.dir, w.env, rl...) {
		f := strings.Fields(l)
		if len(f) < 2 || !strings.HasSuffix(f[1], ".bin") {
			continue
		}
		blob, _ := w.git("cat-file", "blob", f[0])
		if p, ok := isPointerText([]byte(blob)); ok && p.Size > 0 {
			want[p.Oid] = true
		}
	}
	args := append([]string{"lfs", "push", "origin"}, named...)
	log("git %s", strings.Join(args, " "))
	out, code := w.git(args...)
	c.R.Count(fmt.Sprintf("lfspush-refs.named.%d", len(named)))
	c.R.Count(fmt.Sprintf("lfspush-refs.objects.%d", min(len(want), 9)))
	enc := fmt.Sprintf("C03 lfspush seed=%d idx=%d steps=%s", c.Seed, idx, strings.Join(steps, " ; "))
	c.R.Eval(enc, len(named) > 1 && len(want) > 0)
	if code != 0 {
		c.R.Add(Finding{Kind: "oracle", What: "`git lfs push` of named refs failed although every object is present locally and the server accepts everything", Case: enc, Impl: clip(out, 600)})
		return
	}
	var missing []string
	srv.mu.Lock()
	for oid := range want {
		if _, have := srv.objs[oid]; !have {
			missing = append(missing, oid[:12])
		}
	}
	srv.mu.Unlock()
	sort.Strings(missing)
	if len(missing) > 0 {
		c.R.Add(Finding{Kind: "oracle", What: "`git lfs push` of several named refs succeeded but an object they reference (and no remote-tracking ref does) is not on the server",
			Case: enc, Impl: clip(strings.Join(missing, ", ")+" | "+out, 600)})
	}
}

// c03Missing: an object absent (or present with the wrong bytes) locally and absent on the server makes
// the push fail before any ref is updated — over an http LFS server and over a file:// remote served
// by the standalone transfer agent
func c03Missing(c *Ctx, idx int, r *Rng) {
	base := filepath.Join(c.Work, fmt.Sprintf("c03m-%d", idx))
	defer os.RemoveAll(base)
	os.MkdirAll(base, 0o755)
	srv := newLfsServer()
	defer srv.srv.Close()
	remote := filepath.Join(base, "remote.git")
	runIn(base, nil, "git", "init", "-q", "--bare", remote)
	w, err := newScenRepo(c, filepath.Join(base, "w"), srv)
	if err != nil {
		return
	}
	kind := Pick(r, []string{"http", "http", "file"})
	if kind == "file" {
		w.git("remote", "add", "origin", "file://"+remote)
		w.git("config", "--unset", "lfs.url")
	} else {
		w.git("remote", "add", "origin", remote)
	}
	w.write(".gitattributes", []byte("*.bin filter=lfs -text\n"))
	var oids []string
	conts := map[string][]byte{}
	for i := 0; i < 3; i++ {
		b := r.Bytes(Pick(r, []int{100, 3000, 30000}) + i)
		w.write(fmt.Sprintf("f%d.bin", i), b)
		oids = append(oids, sha(b))
		conts[sha(b)] = b
	}
	w.git("add", "-A")
	w.git("commit", "-qm", "objs")
	// a first, healthy push of an earlier commit so that refs exist on the remote in half of the cases
	victim := oids[r.Intn(3)]
	allow := r.Chance(40)
	if allow {
		w.git("config", "lfs.allowincompletepush", "true")
	}
	damage := Pick(r, []string{"delete", "delete", "truncate", "extend", "bitflip"})
	p := w.objectPath(victim)
	switch damage {
	case "delete":
		os.Remove(p)
	case "truncate":
		os.WriteFile(p, conts[victim][:len(conts[victim])/3], 0o644)
	case "extend":
		os.WriteFile(p, append(append([]byte(nil), conts[victim]...), []byte("tail")...), 0o644)
	case "bitflip":
		nb := append([]byte(nil), conts[victim]...)
		nb[len(nb)/2] ^= 1
		os.WriteFile(p, nb, 0o644)
	}
	// a second, independent fault in the same push: the server refuses (or loses) ANOTHER object, one that
	// is perfectly fine locally — allowing incomplete pushes excuses absent objects, nothing else
	refused := ""
	if kind == "http" && r.Chance(map[bool]int{true: 75, false: 30}[allow]) {
		for _, o := range oids {
			if o != victim {
				refused = o
				break
			}
		}
		srv.mu.Lock()
		if r.Bool() {
			srv.putFail[refused] = Pick(r, []int{500, 403, 507})
		} else {
			srv.putLose[refused] = true
		}
		srv.mu.Unlock()
		c.R.Count("damaged-object-push.plus-server-fault")
	}
	before := remoteRefs(remote, w.env)
	out, code := w.git("push", "origin", "master")
	after := remoteRefs(remote, w.env)
	enc := fmt.Sprintf("C03 missing seed=%d idx=%d remote=%s damage=%s allowincomplete=%v server-refuses-another=%v", c.Seed, idx, kind, damage, allow, refused != "")
	c.R.Eval(enc, true)
	c.R.Count("damaged-object-push." + kind + "." + damage)
	stored := func(oid string) ([]byte, bool) {
		if kind == "file" {
			b, err := os.ReadFile(filepath.Join(remote, "lfs", "objects", oid[0:2], oid[2:4], oid))
			return b, err == nil
		}
		srv.mu.Lock()
		defer srv.mu.Unlock()
		b, ok := srv.objs[oid]
		return b, ok
	}
	// how the hook ends, against the decision model PushReport.ok: what the scenario planted decides
	{
		mc := damage != "bitflip"                     // absent, or a file of the wrong size: not uploadable, and not on the server
		other := damage == "bitflip" || refused != "" // content under the wrong id is refused by server / agent; a refused or lost PUT
		b01 := func(b bool) string {
			if b {
				return "1"
			}
			return "0"
		}
		if ans, err := c.Or.Ask([]string{fmt.Sprintf("C03 report %s %s %s 0 0", b01(mc), b01(allow), b01(other))}); err == nil {
			got := "ok"
			if code != 0 {
				got = "fail"
			}
			if ans[0] != got {
				c.R.Add(Finding{Kind: "diff", What: "how a push with faults ends: model and implementation disagree", Case: enc, Impl: got + " | " + clip(out, 300), Model: ans[0], Broken: "corr.C03.report"})
			}
			c.R.Count("damaged-object-push.report-compared")
		}
	}
	if code == 0 || before != after {
		// the refs moved: every referenced object must be on the remote with the right content
		for _, o := range oids {
			b, ok := stored(o)
			if allow && o == victim && damage != "bitflip" {
				continue // incomplete pushes were explicitly allowed (missing or wrong-sized local object)
			}
			if !ok {
				c.R.Add(Finding{Kind: "oracle", What: "a push updated refs although a referenced object is neither intact locally nor on the remote (object absent on the remote)", Case: enc, Impl: clip(out, 400)})
			} else if sha(b) != o {
				c.R.Add(Finding{Kind: "oracle", What: "a push stored an object on the remote under an id its content does not hash to", Case: enc, Impl: fmt.Sprintf("%s holds %d bytes hashing to %s | %s", o[:12], len(b), sha(b)[:12], clip(out, 300))})
			}
		}
	}
	if !allow && damage == "delete" && (code == 0 || before != after) {
		c.R.Add(Finding{Kind: "oracle", What: "a push with an object absent locally and on the server did not fail before updating refs (lfs.allowincompletepush unset)", Case: enc, Impl: clip(out, 400)})
	}
	// whatever happened, nothing wrong may sit on the remote under the victim's name
	if b, ok := stored(victim); ok && sha(b) != victim {
		c.R.Add(Finding{Kind: "oracle", What: "the remote's LFS store holds an object whose content does not hash to its name", Case: enc, Impl: victim[:12]})
	}
}

func c03(c *Ctx) {
	r := NewRng(c.Seed ^ 0xC03)
	n := c.N(150, 2500)
	c.R.Rule = "cases = random histories (linear, branches, merges, tags annotated/lightweight, add/modify/delete/rename/duplicate content, raw files) built with real git + the real clean filter, pushed in random order and partition (branch by branch, -f, --all, --tags, several refs, HEAD) through the real pre-push hook with batch sizes {1,2,3,100}; plus pushes with an object missing locally and on the server; non-trivial = scenario whose pushes make >= 1 LFS object reachable on the remote; distinct = different (seed, index)"
	var wg sync.WaitGroup
	sem := make(chan struct{}, 10)
	for i := 0; i < n; i++ {
		rs := r.Fork()
		wg.Add(1)
		sem <- struct{}{}
		go func(i int, rs *Rng) {
			defer wg.Done()
			defer func() { <-sem }()
			defer func() {
				if x := recover(); x != nil {
					c.R.Add(Finding{Kind: "diff", What: fmt.Sprintf("scenario harness problem: %v", x), Broken: "corr.C03.scenario"})
				}
			}()
			if i%6 == 5 {
				c03Missing(c, i, rs)
			} else if i%6 == 4 {
				c03LfsPushRefs(c, i, rs)
			} else {
				c03Scenario(c, i, rs)
			}
		}(i, rs)
	}
	wg.Wait()
	c03PrePushParser(c, r)
	model, err := c.Or.Ask(c03ModelLines)
	if err != nil {
		c.R.Add(Finding{Kind: "diff", What: "oracle process failed: " + err.Error(), Broken: "corr.C03.exclusion"})
		return
	}
	for i := range c03ModelLines {
		if model[i] != c03ModelImpl[i] {
			c.R.Add(Finding{Kind: "diff", What: "exclusion set: harness mirror and Lean model disagree", Case: c03ModelLines[i], Impl: c03ModelImpl[i], Model: model[i], Broken: "corr.C03.exclusion"})
		}
	}
}

// c03PrePushParser: the hook's stdin parser (commands.prePushRefs, reached through the hidden
// `verif-prepush-refs` command of the verif build) against PrePush.parse on generated hook inputs:
// created / updated / deleted refs in every order, blank lines, stray white space, short and long lines.
func c03PrePushParser(c *Ctx, r *Rng) {
	dir := filepath.Join(c.Work, "c03-prepush")
	if gitInit(dir) != nil {
		return
	}
	defer os.RemoveAll(dir)
	n := c.N(300, 6000)
	hexid := func(k int) string {
		const d = "0123456789abcdef"
		b := make([]byte, k)
		for i := range b {
			b[i] = d[r.Intn(16)]
		}
		return string(b)
	}
	refs := []string{"refs/heads/main", "refs/heads/aaa-old", "refs/heads/zzz", "refs/heads/feature/x", "refs/tags/v1", "refs/heads/ünï", "refs/remotes/origin/x", "HEAD", "refs/notes/commits", "refs/heads/"}
	var mlines, mimpl, mcase []string
	for i := 0; i < n; i++ {
		var lines []string
		k := 1 + r.Intn(5)
		for j := 0; j < k; j++ {
			zero := Pick(r, []string{strings.Repeat("0", 40), strings.Repeat("0", 40), strings.Repeat("0", 64)})
			switch r.Intn(12) {
			case 0, 1, 2: // a deletion
				lines = append(lines, fmt.Sprintf("(delete) %s %s %s", zero, Pick(r, refs), hexid(40)))
				c.R.Count("prepush.line.delete")
			case 3, 4, 5, 6: // an update
				lines = append(lines, fmt.Sprintf("%s %s %s %s", Pick(r, refs), hexid(40), Pick(r, refs), hexid(40)))
				c.R.Count("prepush.line.update")
			case 7: // a new ref
				lines = append(lines, fmt.Sprintf("%s %s %s %s", Pick(r, refs), hexid(Pick(r, []int{40, 64})), Pick(r, refs), zero))
				c.R.Count("prepush.line.create")
			case 8:
				lines = append(lines, Pick(r, []string{"", " ", "\t"}))
			case 9: // stray white space around / CR at the end
				lines = append(lines, Pick(r, []string{" ", "\t", ""})+fmt.Sprintf("%s %s %s %s", Pick(r, refs), hexid(40), Pick(r, refs), hexid(40))+Pick(r, []string{" ", "\r", "\t ", ""}))
			case 10: // not quite a zero id / short and long lines / doubled blanks
				lines = append(lines, Pick(r, []string{
					fmt.Sprintf("(delete) %s %s %s", strings.Repeat("0", Pick(r, []int{39, 41, 1, 63})), Pick(r, refs), hexid(40)),
					fmt.Sprintf("%s %s", Pick(r, refs), hexid(40)),
					fmt.Sprintf("%s", Pick(r, refs)),
					fmt.Sprintf("%s %s %s %s extra words", Pick(r, refs), hexid(40), Pick(r, refs), hexid(40)),
					fmt.Sprintf("%s  %s %s %s", Pick(r, refs), hexid(40), Pick(r, refs), hexid(40)),
					fmt.Sprintf("%s %s %s %s", Pick(r, refs), strings.Repeat("0", 39)+"1", Pick(r, refs), hexid(40))}))
			default:
				lines = append(lines, fmt.Sprintf("%s %s %s %s", Pick(r, refs), hexid(40), Pick(r, refs), zero))
			}
		}
		in := strings.Join(lines, "\n")
		if r.Chance(80) {
			in += "\n"
		}
		out, code := runInStdin(dir, in, c.Lfs, "verif-prepush-refs", "origin")
		enc := "C03 prepush " + hx([]byte(in))
		c.R.Eval(enc, strings.Contains(in, "(delete)"))
		if code != 0 {
			c.R.Add(Finding{Kind: "diff", What: "verif-prepush-refs failed", Case: enc, Impl: clip(out, 200), Broken: "corr.C03.prepush"})
			continue
		}
		var got []string
		for _, l := range strings.Split(strings.TrimRight(out, "\n"), "\n") {
			if l == "" && out == "" {
				continue
			}
			f := strings.Split(l, " ")
			for len(f) < 4 {
				f = append(f, "")
			}
			got = append(got, hexOrDash(f[0])+"/"+hexOrDash(f[1])+"/"+hexOrDash(f[2])+"/"+hexOrDash(f[3]))
		}
		g := strings.Join(got, ";")
		if out == "" {
			g = "-"
		}
		mlines = append(mlines, enc)
		mimpl = append(mimpl, g)
		mcase = append(mcase, enc)
		// the property's side of it, on the implementation alone: every line with four blank-free fields and a
		// non-zero local id must come out as one update
		want := 0
		for _, l := range lines {
			f := strings.Fields(l)
			if len(f) >= 2 && strings.Trim(f[1], "0") != "" && !strings.Contains(strings.TrimSpace(l), "  ") {
				want++
			}
		}
		if want > len(got) || (out == "" && want > 0) {
			c.R.Add(Finding{Kind: "oracle", What: "the pre-push hook drops a ref update of the push (a created or updated ref is not scanned)", Case: enc, Impl: fmt.Sprintf("%d of %d updates: %q", len(got), want, clip(out, 300))})
		}
	}
	model, err := c.Or.Ask(mlines)
	if err != nil {
		c.R.Add(Finding{Kind: "diff", What: "oracle process failed: " + err.Error(), Broken: "corr.C03.prepush"})
		return
	}
	for i := range mlines {
		if model[i] != mimpl[i] {
			c.R.Add(Finding{Kind: "diff", What: "pre-push input parser: model and implementation disagree", Case: mcase[i], Impl: mimpl[i], Model: model[i], Broken: "corr.C03.prepush"})
		}
	}
}

func init() { campaigns["C03"] = c03 }
