// C11: .lfsconfig can only set the documented safe keys.
// (a) in-process config.VerifReadGitConfig vs Cfg.readGitConfig on generated key/value lines;
// (b) end-to-end: hostile .lfsconfig files (worktree / index only / HEAD only) read by the real binary.
package main

import (
	"bytes"
	"fmt"
	"os"
	"os/exec"
	"path/filepath"
	"sort"
	"strings"

	"github.com/git-lfs/git-lfs/v3/config"
	"github.com/git-lfs/git-lfs/v3/git"
)

// Spec (docs/man/git-lfs-config.adoc, LFSCONFIG section), written by hand: never regenerated.
var specDocPlain = map[string]bool{"lfs.allowincompletepush": true, "lfs.fetchexclude": true, "lfs.fetchinclude": true, "lfs.gitprotocol": true,
	"lfs.locksverify": true, "lfs.pushurl": true, "lfs.skipdownloaderrors": true, "lfs.url": true}

func specDocumented(key string) bool {
	if specDocPlain[key] {
		return true
	}
	parts := strings.Split(key, ".")
	if len(parts) > 2 && parts[0] == "lfs" && parts[len(parts)-1] == "access" {
		return true
	}
	if len(parts) > 2 && parts[0] == "remote" && parts[len(parts)-1] == "lfsurl" {
		return true
	}
	return false
}

var c11Sections = []string{"lfs", "remote", "credential", "core", "http", "url", "filter", "ssh", "lfs.extension", "lfs.customtransfer", "branch", "foo"}
var c11Mids = []string{"", "origin", "a.b", "foo", "http://h.example/x", "https://h.example:8443/p.git", "e", "*"}
var c11Lasts = []string{"url", "pushurl", "lfsurl", "lfspushurl", "access", "clean", "smudge", "priority", "path", "args", "helper", "askpass", "sshcommand", "proxy",
	"insteadof", "pushinsteadof", "process", "required", "fetchinclude", "fetchexclude", "locksverify", "gitprotocol", "skipdownloaderrors", "allowincompletepush",
	"standalonetransferagent", "sshtransfer", "concurrenttransfers", "batch", "tustransfers", "basictransfersonly", "lfsdefault", "lfspushdefault", "remote", "bar", "sslverify", "extraheader"}

func genCfgKey(r *Rng) string {
	if r.Chance(25) {
		ks := make([]string, 0, len(specDocPlain))
		for k := range specDocPlain {
			ks = append(ks, k)
		}
		sort.Strings(ks)
		return Pick(r, ks)
	}
	sec := Pick(r, c11Sections)
	mid := Pick(r, c11Mids)
	last := Pick(r, c11Lasts)
	if r.Chance(20) {
		// a sub-section named like a LAST component of a documented key (`access`, `lfsurl`, `url` …), or beginning
		// or ending with one: the documented wild cards are about the last component only
		w := Pick(r, []string{"access", "lfsurl", "url", "pushurl", "fetchexclude", "locksverify"})
		mid = Pick(r, []string{w, w + "ory", "x." + w, w + ".x", "my" + w})
	}
	if mid == "" {
		return sec + "." + last
	}
	return sec + "." + mid + "." + last
}

type cfgCase struct {
	Sources [][]string // lines per source
	Safe    []bool
}

func (cc cfgCase) encode() string {
	var ss []string
	for i, src := range cc.Sources {
		var ls []string
		for _, l := range src {
			ls = append(ls, hx([]byte(l)))
		}
		f := "0"
		if cc.Safe[i] {
			f = "1"
		}
		if len(ls) == 0 {
			ss = append(ss, f+":-")
		} else {
			ss = append(ss, f+":"+strings.Join(ls, ","))
		}
	}
	return "C11 read " + strings.Join(ss, ";")
}

func decodeCfgCase(s string) (cfgCase, bool) {
	f := strings.Fields(s)
	if len(f) != 3 {
		return cfgCase{}, false
	}
	var cc cfgCase
	for _, src := range strings.Split(f[2], ";") {
		p := strings.SplitN(src, ":", 2)
		if len(p) != 2 {
			return cc, false
		}
		var ls []string
		if p[1] != "-" {
			for _, h := range strings.Split(p[1], ",") {
				ls = append(ls, string(unhx(h)))
			}
		} else {
			ls = []string{""} // what ParseConfigLines makes of an empty output
		}
		cc.Sources = append(cc.Sources, ls)
		cc.Safe = append(cc.Safe, p[0] == "1")
	}
	return cc, true
}

func canonCfg(vals map[string][]string, exts, remotes []string) string {
	var ks []string
	for k := range vals {
		ks = append(ks, k)
	}
	sort.Strings(ks)
	var vs []string
	for _, k := range ks {
		for _, v := range vals[k] {
			vs = append(vs, hx([]byte(k))+"="+hx([]byte(v)))
		}
	}
	e := append([]string(nil), exts...)
	rm := append([]string(nil), remotes...)
	sort.Strings(e)
	sort.Strings(rm)
	for i := range e {
		e[i] = hx([]byte(e[i]))
	}
	for i := range rm {
		rm[i] = hx([]byte(rm[i]))
	}
	return fmt.Sprintf("vals=[%s] exts=[%s] remotes=[%s]", strings.Join(vs, ","), strings.Join(e, ","), strings.Join(rm, ","))
}

func c11(c *Ctx) {
	r := NewRng(c.Seed ^ 0xC11)
	n := c.N(12000, 300000)
	c.R.Rule = "cases = generated configuration sources (key space: sections x sub-sections x last components incl. every dangerous family; 1-2 sources, the first flagged OnlySafeKeys like .lfsconfig) read by readGitConfig in-process, plus hostile .lfsconfig files read by the real binary; non-trivial = source with >= 1 key outside the documented list; distinct = different encoded case"
	var cases []cfgCase
	for _, l := range corpusLines(c, "C11") {
		if cc, ok := decodeCfgCase(l); ok {
			cases = append(cases, cc)
		}
	}
	if c.Replay != "" {
		cases = nil
		if cc, ok := decodeCfgCase(replayCase(c)); ok {
			cases = append(cases, cc)
		}
		n = 0
	}
	for i := 0; i < n; i++ {
		var cc cfgCase
		ns := 1 + r.Intn(2)
		for s := 0; s < ns; s++ {
			var ls []string
			nl := 1 + r.Intn(5)
			if i < 3000 {
				nl = 1 // single-key sources first: the whole key space, one key at a time
			}
			for j := 0; j < nl; j++ {
				k := genCfgKey(r)
				v := Pick(r, []string{"x", "http://evil.example/", "basic", "/bin/false", "true", "0", "a=b", "", ""})
				if r.Chance(3) {
					ls = append(ls, k) // a line without '='
				} else {
					ls = append(ls, k+"="+v)
				}
			}
			if s == 1 && len(cc.Sources[0]) > 0 && r.Chance(40) {
				// Git's own configuration sets a key that the repository's file also sets — to another value,
				// possibly the empty one (the way to cancel a setting the repository supplies)
				k := strings.SplitN(Pick(r, cc.Sources[0]), "=", 2)[0]
				ls = append(ls, k+"="+Pick(r, []string{"", "", "mine", "false"}))
			}
			if r.Chance(4) {
				ls = []string{""} // an empty file: `git config -l -f` prints nothing, which is read as ONE empty line
				c.R.Count("source.empty-file")
			}
			cc.Sources = append(cc.Sources, ls)
			cc.Safe = append(cc.Safe, s == 0 && (ns == 2 || r.Chance(80)))
		}
		cases = append(cases, cc)
	}
	lines := make([]string, len(cases))
	for i, cc := range cases {
		lines[i] = cc.encode()
	}
	model, err := c.Or.Ask(lines)
	if err != nil {
		c.R.Add(Finding{Kind: "diff", What: "oracle process failed: " + err.Error(), Broken: "corr.C11.read"})
	}
	var getLines, getImpl, getCase []string
	oldStderr := os.Stderr
	devnull, _ := os.OpenFile(os.DevNull, os.O_WRONLY, 0)
	os.Stderr = devnull // readGitConfig prints its "ignored" warning there
	for i, cc := range cases {
		var srcs []*git.ConfigurationSource
		undocumented := false
		for si, ls := range cc.Sources {
			srcs = append(srcs, &git.ConfigurationSource{Lines: ls, OnlySafeKeys: cc.Safe[si]})
			for _, l := range ls {
				if !specDocumented(strings.SplitN(l, "=", 2)[0]) {
					undocumented = true
				}
			}
		}
		vals, exts, remotes := config.VerifReadGitConfig(srcs...)
		impl := canonCfg(vals, exts, remotes)
		c.R.Eval(lines[i], undocumented)
		if i%(len(cases)/4+1) == 0 {
			c.R.Sample(map[string]interface{}{"sources": cc.Sources, "only_safe": cc.Safe, "impl": clip(impl, 300)})
		}
		// property oracle: what a safe-only source alone makes effective
		for si, ls := range cc.Sources {
			if !cc.Safe[si] {
				continue
			}
			v1, e1, _ := config.VerifReadGitConfig(&git.ConfigurationSource{Lines: ls, OnlySafeKeys: true})
			for k := range v1 {
				if !specDocumented(k) {
					c.R.Count("oracle.undocumented-stored")
					c.R.Add(Finding{Kind: "oracle", What: "a key outside the documented .lfsconfig allow-list took effect: " + keyShape(k), Case: lines[i], Impl: k})
				}
			}
			if len(e1) > 0 {
				c.R.Add(Finding{Kind: "oracle", What: "a .lfsconfig source registered a filter extension", Case: lines[i], Impl: strings.Join(e1, ",")})
			}
		}
		// the extension table is the one the trusted sources alone produce (Props.C11.extensions_come_from_git_config)
		{
			var trusted []*git.ConfigurationSource
			for si := range cc.Sources {
				if !cc.Safe[si] {
					trusted = append(trusted, srcs[si])
				}
			}
			_, et, _ := config.VerifReadGitConfig(trusted...)
			if strings.Join(et, ",") != strings.Join(exts, ",") {
				c.R.Add(Finding{Kind: "oracle", What: "the extension table differs from the one Git's own configuration alone produces", Case: lines[i], Impl: strings.Join(exts, ",") + " vs " + strings.Join(et, ",")})
			}
			if len(et) > 0 {
				c.R.Count("oracle.extensions-of-trusted-sources")
			}
		}
		// git config wins
		if len(cc.Sources) == 2 && cc.Safe[0] && !cc.Safe[1] {
			gv, _, _ := config.VerifReadGitConfig(srcs[1])
			for k, vs := range gv {
				all := vals[k]
				if len(all) == 0 || all[len(all)-1] != vs[len(vs)-1] {
					c.R.Add(Finding{Kind: "oracle", What: "a value set in git's own configuration did not win over .lfsconfig", Case: lines[i], Impl: k})
				}
			}
		}
		// the lookup the consumers use (GitFetcher.Get), for one key of the case: against the model's `get` and,
		// when Git's own configuration sets the key, against Git's value — empty or not
		if len(cc.Sources) > 0 && len(cc.Sources[len(cc.Sources)-1]) > 0 {
			last := cc.Sources[len(cc.Sources)-1]
			key := strings.ToLower(strings.SplitN(last[len(last)-1-(i%2)*((i*7)%len(last))%len(last)], "=", 2)[0])
			gv, gok := config.VerifGet(key, srcs...)
			gimpl := "none"
			if gok {
				gimpl = "some:" + hx([]byte(gv))
			}
			getLines = append(getLines, "C11 get "+strings.TrimPrefix(lines[i], "C11 read ")+" "+hx([]byte(key)))
			getImpl = append(getImpl, gimpl)
			getCase = append(getCase, lines[i]+" key="+key)
			if len(cc.Sources) == 2 && cc.Safe[0] && !cc.Safe[1] {
				// Git's own value for the key, read off the lines themselves
				own, ok := "", false
				for _, l := range cc.Sources[1] {
					if l == "" {
						continue // an empty file's one empty "line": no key
					}
					kv := strings.SplitN(l, "=", 2)
					if len(kv) == 1 {
						kv = append(kv, "true") // a value-less key is the boolean true
					}
					if strings.ToLower(kv[0]) == key {
						own, ok = kv[1], true
					}
				}
				if ok && (!gok || gv != own) {
					c.R.Add(Finding{Kind: "oracle", What: "a value set in git's own configuration did not win over .lfsconfig", Case: lines[i], Impl: fmt.Sprintf("lookup of %s gives %q, git's own configuration says %q", key, gv, own)})
				}
			}
		}
		if model != nil && model[i] != impl {
			c.R.Add(Finding{Kind: "diff", What: "readGitConfig: model and implementation disagree", Case: lines[i], Impl: clip(impl, 500), Model: clip(model[i], 500), Broken: "corr.C11.read"})
		}
	}
	os.Stderr = oldStderr
	if ans, err := c.Or.Ask(getLines); err == nil {
		for k := range getLines {
			if ans[k] != getImpl[k] {
				c.R.Add(Finding{Kind: "diff", What: "the configuration lookup (last value wins): model and implementation disagree", Case: clip(getCase[k], 1500), Impl: getImpl[k], Model: ans[k], Broken: "corr.C11.get"})
			}
		}
	}
	if c.Replay == "" {
		c11EndToEnd(c, r)
		c11Precedence(c, r.Fork())
		c11TransferAgent(c, r.Fork())
	}
}

func keyShape(k string) string {
	parts := strings.Split(k, ".")
	if len(parts) <= 2 {
		return k
	}
	return fmt.Sprintf("%s.<%d parts>.%s", parts[0], len(parts)-2, parts[len(parts)-1])
}

func runIn(dir string, env []string, name string, args ...string) (string, int) {
	cmd := exec.Command(name, args...)
	cmd.Dir = dir
	cmd.Env = append(os.Environ(), env...)
	var out bytes.Buffer
	cmd.Stdout = &out
	cmd.Stderr = &out
	err := cmd.Run()
	code := 0
	if err != nil {
		code = 1
		if ee, ok := err.(*exec.ExitError); ok {
			code = ee.ExitCode()
		}
	}
	return out.String(), code
}

// c11EndToEnd: hostile .lfsconfig in three locations; the observable configuration (`git lfs env`
// without the warning block) must equal that of the same repository without the file, no sentinel
// program may run, and `git lfs clean` must still work.
// c11Precedence: a documented key set BOTH in .lfsconfig (worktree, index or HEAD) and in Git's own
// configuration — the effective value, as `git lfs env` prints it, must be exactly Git's value (not
// the repository's, not a merge of the two); set in .lfsconfig alone it takes effect.
func c11Precedence(c *Ctx, r *Rng) {
	type kv struct {
		key    string
		label  string
		vals   [2]string // [.lfsconfig value, git config value]
		render func(v string) string
	}
	id := func(v string) string { return v }
	list := func(v string) string { return strings.Join(strings.Split(v, ","), ", ") }
	keys := []kv{
		{"lfs.fetchinclude", "FetchInclude=", [2]string{"assets,docs,extra", "assets,docs"}, list},
		{"lfs.fetchexclude", "FetchExclude=", [2]string{"assets", "docs"}, list},
		{"lfs.skipdownloaderrors", "SkipDownloadErrors=", [2]string{"true", "false"}, id},
		{"lfs.url", "Endpoint=", [2]string{"https://repo.example.invalid/lfs", "https://mine.example.invalid/lfs"}, func(v string) string { return v + " (auth=none)" }},
	}
	n := c.N(40, 400)
	for i := 0; i < n; i++ {
		k := keys[r.Intn(len(keys))]
		where := Pick(r, []string{"worktree", "index", "head"})
		both := r.Chance(65)
		swap := r.Bool()
		repoVal, gitVal := k.vals[0], k.vals[1]
		if swap {
			repoVal, gitVal = gitVal, repoVal
		}
		dir := filepath.Join(c.Work, fmt.Sprintf("c11p-%d", i))
		if gitInit(dir) != nil {
			continue
		}
		cfgFile := filepath.Join(c.Work, fmt.Sprintf("c11p-%d.gitconfig", i))
		os.WriteFile(cfgFile, []byte("[user]\n\tname = v\n\temail = v@example.invalid\n"), 0o644)
		env := []string{"GIT_CONFIG_GLOBAL=" + cfgFile}
		section, name := k.key[:3], k.key[4:]
		os.WriteFile(filepath.Join(dir, ".lfsconfig"), []byte("["+section+"]\n\t"+name+" = "+repoVal+"\n"), 0o644)
		if where != "worktree" {
			runIn(dir, env, "git", "add", ".lfsconfig")
			if where == "head" {
				runIn(dir, env, "git", "commit", "-qm", "cfg")
				runIn(dir, env, "git", "rm", "-q", "--cached", ".lfsconfig")
			}
			os.Remove(filepath.Join(dir, ".lfsconfig"))
			if where == "head" {
				// only HEAD holds it: neither worktree nor index
			}
		}
		if both {
			if r.Bool() {
				runIn(dir, env, "git", "config", "--local", k.key, gitVal)
			} else {
				runIn(dir, env, "git", "config", "--file", cfgFile, k.key, gitVal)
			}
		}
		out, _ := runIn(dir, env, c.Lfs, "env")
		got := ""
		for _, l := range strings.Split(out, "\n") {
			if strings.HasPrefix(l, k.label) {
				got = strings.TrimPrefix(l, k.label)
				break
			}
		}
		want := k.render(repoVal)
		if both {
			want = k.render(gitVal)
		}
		enc := fmt.Sprintf("C11 precedence key=%s lfsconfig(%s)=%s gitconfig=%v:%s", k.key, where, repoVal, both, gitVal)
		c.R.Eval(enc, both)
		c.R.Count("precedence." + k.key)
		if got != want {
			what := "a documented .lfsconfig key set alone did not take effect"
			if both {
				what = "a value set in Git's own configuration did not win over the .lfsconfig value"
			}
			c.R.Add(Finding{Kind: "oracle", What: what, Case: enc, Impl: fmt.Sprintf("git lfs env: %s%q, expected %q", k.label, got, want)})
		}
		os.RemoveAll(dir)
		os.Remove(cfgFile)
	}
}

func c11EndToEnd(c *Ctx, r *Rng) {
	hostile := [][2]string{
		{"lfs.extension.evil.clean", "SENTINEL clean"}, {"lfs.extension.evil.smudge", "SENTINEL smudge"}, {"lfs.extension.evil.priority", "0"},
		{"lfs.extension.evil.bar", "1"}, {"lfs.customtransfer.evil.path", "SENTINEL"}, {"lfs.standalonetransferagent", "evil"},
		{"credential.helper", "!SENTINEL"}, {"core.askpass", "SENTINEL"}, {"core.sshcommand", "SENTINEL"}, {"http.proxy", "http://evil.example:1"},
		{"url.http://evil.example/.insteadof", "http://good.example/"}, {"remote.origin.url", "http://evil.example/r"}, {"remote.origin.pushurl", "http://evil.example/r"},
		{"remote.a.b.url", "http://evil.example/r"}, {"remote.a.b.pushurl", "http://evil.example/p"}, {"remote.lfsdefault", "evil"},
		{"filter.lfs.clean", "SENTINEL"}, {"foo.bar.access", "basic"}, {"lfs.concurrenttransfers", "1"}, {"lfs.tustransfers", "true"},
	}
	n := c.N(26, 200)
	for i := 0; i < n; i++ {
		dir := filepath.Join(c.Work, fmt.Sprintf("e2e%d", i))
		if err := gitInit(dir); err != nil {
			return
		}
		sentinel := filepath.Join(dir, "sentinel-ran")
		prog := filepath.Join(c.Work, fmt.Sprintf("sentinel%d.sh", i))
		os.WriteFile(prog, []byte("#!/bin/sh\ntouch \""+sentinel+"\"\ncat\n"), 0o755)
		runIn(dir, nil, "git", "remote", "add", "origin", "http://good.example/repo")
		runIn(dir, nil, "git", "remote", "add", "a.b", "http://good.example/ab")
		os.WriteFile(filepath.Join(dir, "f.txt"), []byte("x"), 0o644)
		runIn(dir, nil, "git", "add", "f.txt")
		runIn(dir, nil, "git", "commit", "-qm", "init")
		// the user's own settings in Git's configuration: they count whatever the repository's file holds
		runIn(dir, nil, "git", "config", "lfs.concurrenttransfers", "3")
		runIn(dir, nil, "git", "config", "lfs.url", "http://good.example/mine")
		base, _ := runIn(dir, nil, c.Lfs, "env")
		// pick 1-3 hostile keys (every key alone first)
		var picks [][2]string
		unparsable := false
		if i < len(hostile) {
			picks = append(picks, hostile[i])
		} else if i == len(hostile)+1 || r.Chance(8) {
			// a .lfsconfig Git cannot parse (left behind by a conflicted merge): it is left out, Git's own
			// configuration still counts
			os.WriteFile(filepath.Join(dir, ".lfsconfig"), []byte("<<<<<<< HEAD\n[lfs]\n\turl = http://evil.example/a\n=======\n[lfs]\n\turl = http://evil.example/b\n>>>>>>> other\n"), 0o644)
			c.R.Count("e2e.unparsable-file")
			unparsable = true
		} else if i == len(hostile) || r.Chance(8) {
			// an EMPTY .lfsconfig: no key at all — nothing may change and nothing may be reported as ignored
			os.WriteFile(filepath.Join(dir, ".lfsconfig"), nil, 0o644)
			c.R.Count("e2e.empty-file")
		} else {
			for k := 0; k < 1+r.Intn(3); k++ {
				picks = append(picks, Pick(r, hostile))
			}
		}
		var desc []string
		for _, kv := range picks {
			v := strings.ReplaceAll(kv[1], "SENTINEL", prog)
			runIn(dir, nil, "git", "config", "-f", ".lfsconfig", kv[0], v)
			desc = append(desc, kv[0])
		}
		loc := Pick(r, []string{"worktree", "index", "head", "head", "head+index", "bare"})
		if unparsable && r.Chance(70) {
			loc = "worktree" // that is where Git's refusal to parse the file used to take Git's own configuration with it
		}
		rundir := dir
		if loc != "worktree" {
			runIn(dir, nil, "git", "add", ".lfsconfig")
			if loc != "index" {
				runIn(dir, nil, "git", "commit", "-qm", "cfg")
			}
			if loc == "head" {
				// only HEAD holds it: neither the working tree nor the index
				runIn(dir, nil, "git", "rm", "-q", "--cached", ".lfsconfig")
			}
			os.Remove(filepath.Join(dir, ".lfsconfig"))
			if loc == "bare" {
				// a bare repository has neither working tree nor index: the baseline is its own `git lfs env`
				// with the file's keys absent, i.e. the bare clone of the commit BEFORE the file was added
				rundir = filepath.Join(c.Work, fmt.Sprintf("e2e%d.git", i))
				runIn(c.Work, nil, "git", "clone", "-q", "--bare", dir, rundir)
				runIn(rundir, nil, "git", "remote", "set-url", "origin", "http://good.example/repo")
				runIn(rundir, nil, "git", "remote", "add", "a.b", "http://good.example/ab")
				runIn(rundir, nil, "git", "update-ref", "refs/heads/clean", "HEAD~1")
				runIn(rundir, nil, "git", "symbolic-ref", "HEAD", "refs/heads/clean")
				base, _ = runIn(rundir, nil, c.Lfs, "env")
				runIn(rundir, nil, "git", "symbolic-ref", "HEAD", "refs/heads/master")
			}
		}
		got, _ := runIn(rundir, nil, c.Lfs, "env")
		cleanOut, code := runInStdin(rundir, "hello world\n", c.Lfs, "clean", "x.bin")
		caseDesc := fmt.Sprintf("e2e location=%s keys=%s", loc, strings.Join(desc, ","))
		c.R.Eval(caseDesc, true)
		c.R.Count("e2e." + loc)
		if _, err := os.Stat(sentinel); err == nil {
			c.R.Add(Finding{Kind: "oracle", What: "end-to-end: a program named only in .lfsconfig was executed", Case: caseDesc})
		}
		if len(picks) == 0 && strings.Contains(got, "unsafe") {
			c.R.Add(Finding{Kind: "oracle", What: "end-to-end: an EMPTY .lfsconfig is reported to contain an ignored unsafe key", Case: caseDesc, Impl: clip(got, 300)})
		}
		if stripEnv(got) != stripEnv(base) {
			c.R.Add(Finding{Kind: "oracle", What: "end-to-end: keys outside the documented allow-list changed the effective configuration (git lfs env): " + strings.Join(desc, ","), Case: caseDesc, Impl: clip(diffLines(stripEnv(base), stripEnv(got)), 600)})
		}
		if code != 0 || !strings.Contains(cleanOut, "oid sha256:") {
			c.R.Add(Finding{Kind: "oracle", What: "end-to-end: with this .lfsconfig `git lfs clean` no longer works: " + strings.Join(desc, ","), Case: caseDesc, Impl: clip(cleanOut, 300)})
		}
		os.RemoveAll(dir)
		if rundir != dir {
			os.RemoveAll(rundir)
		}
	}
}

// c11TransferAgent: a hostile repository AND a hostile LFS server (the server is named by lfs.url, an
// allowed .lfsconfig key, so the repository's author controls it): the server answers every batch request
// with whichever non-built-in transfer adapter the client advertises. Whatever the .lfsconfig says, the
// client must not advertise — let alone start — a transfer agent that only the repository names.
func c11TransferAgent(c *Ctx, r *Rng) {
	n := c.N(16, 160)
	for i := 0; i < n; i++ {
		base := filepath.Join(c.Work, fmt.Sprintf("c11ta-%d", i))
		srv := newLfsServer()
		srv.pickAdvertised = true
		w, err := newScenRepo(c, filepath.Join(base, "w"), srv)
		if err != nil {
			srv.srv.Close()
			continue
		}
		w.git("config", "--unset", "lfs.url") // the endpoint comes from .lfsconfig, as in a fresh clone
		sentinel := filepath.Join(base, "agent-ran")
		prog := filepath.Join(base, "agent.sh")
		os.WriteFile(prog, []byte("#!/bin/sh\ntouch \""+sentinel+"\"\nexit 1\n"), 0o755)
		content := r.Bytes(200)
		oid := sha(content)
		srv.mu.Lock()
		srv.objs[oid] = content
		srv.mu.Unlock()
		w.write(".gitattributes", []byte("*.bin filter=lfs -text\n"))
		w.write("f.bin", canonicalPointer(oid, int64(len(content))))
		w.gitEnv([]string{"GIT_LFS_SKIP_SMUDGE=1"}, "add", "-A")
		w.git("commit", "-qm", "pointer")
		name := Pick(r, []string{"evil", "x1", "agent"})
		keys := [][2]string{{"lfs.url", srv.srv.URL}}
		shape := Pick(r, []string{"plain", "access-suffix", "access-suffix", "remote-lfsurl-suffix", "standalone+access-suffix", "args-too", "url-scoped-access"})
		switch shape {
		case "plain":
			keys = append(keys, [2]string{"lfs.customtransfer." + name + ".path", prog})
		case "access-suffix": // rides on the documented pattern lfs.<url>.access
			keys = append(keys, [2]string{"lfs.customtransfer." + name + ".path.access", prog})
		case "remote-lfsurl-suffix": // rides on the documented pattern remote.<name>.lfsurl
			keys = append(keys, [2]string{"remote.xlfs.customtransfer." + name + ".path.lfsurl", prog})
		case "standalone+access-suffix":
			keys = append(keys, [2]string{"lfs.customtransfer." + name + ".path.access", prog}, [2]string{"lfs.standalonetransferagent", name})
		case "args-too":
			keys = append(keys, [2]string{"lfs.customtransfer." + name + ".path.access", prog}, [2]string{"lfs.customtransfer." + name + ".args", "x"}, [2]string{"lfs.customtransfer." + name + ".direction", "download"})
		case "url-scoped-access":
			keys = append(keys, [2]string{"lfs." + srv.srv.URL + "/customtransfer." + name + ".path.access", prog})
		}
		for _, kv := range keys {
			w.git("config", "-f", ".lfsconfig", kv[0], kv[1])
		}
		loc := Pick(r, []string{"worktree", "index", "head"})
		if loc != "worktree" {
			w.git("add", ".lfsconfig")
			if loc == "head" {
				w.git("commit", "-qm", "cfg")
				w.git("rm", "-q", "--cached", ".lfsconfig")
			}
			os.Remove(filepath.Join(w.dir, ".lfsconfig"))
		}
		cmd := Pick(r, [][]string{{"fetch"}, {"pull"}, {"fetch", "--all"}})
		out, code := w.runLfs(cmd...)
		enc := fmt.Sprintf("C11 transfer-agent seed=%d idx=%d location=%s shape=%s keys=%v cmd=%s", c.Seed, i, loc, shape, keys[1:], strings.Join(cmd, " "))
		c.R.Eval(enc, true)
		c.R.Count("agent." + shape)
		if _, err := os.Stat(sentinel); err == nil {
			c.R.Add(Finding{Kind: "oracle", What: "a program named only in .lfsconfig was executed as a transfer agent", Case: enc, Impl: fmt.Sprintf("exit %d: %s", code, clip(out, 300))})
		}
		srv.mu.Lock()
		for _, rq := range srv.reqs {
			if rq.Kind == "batch" && strings.Contains(rq.Body, "\""+name+"\"") {
				c.R.Add(Finding{Kind: "oracle", What: "a transfer adapter named only in .lfsconfig was advertised to the server", Case: enc, Impl: clip(rq.Body, 300)})
				break
			}
		}
		srv.mu.Unlock()
		srv.srv.Close()
		os.RemoveAll(base)
	}
}

func runInStdin(dir, stdin, name string, args ...string) (string, int) {
	cmd := exec.Command(name, args...)
	cmd.Dir = dir
	cmd.Stdin = strings.NewReader(stdin)
	var out bytes.Buffer
	cmd.Stdout = &out
	cmd.Stderr = &out
	err := cmd.Run()
	code := 0
	if err != nil {
		code = 1
		if ee, ok := err.(*exec.ExitError); ok {
			code = ee.ExitCode()
		}
	}
	return out.String(), code
}

// stripEnv drops the "unsafe keys were ignored" warning block and volatile lines.
func stripEnv(s string) string {
	var out []string
	skip := false
	for _, l := range strings.Split(s, "\n") {
		if strings.HasPrefix(l, "warning: These unsafe") {
			skip = true
			continue
		}
		if skip {
			if strings.HasPrefix(l, "  ") || l == "" {
				continue
			}
			skip = false
		}
		if strings.HasPrefix(l, "Error reading `git config`") {
			continue // a file that cannot be read is reported; what counts is the effective configuration below
		}
		out = append(out, l)
	}
	return strings.Join(out, "\n")
}

func diffLines(a, b string) string {
	am := map[string]bool{}
	for _, l := range strings.Split(a, "\n") {
		am[l] = true
	}
	var d []string
	for _, l := range strings.Split(b, "\n") {
		if !am[l] {
			d = append(d, "+"+l)
		}
	}
	return strings.Join(d, "\n")
}

func init() { campaigns["C11"] = c11 }
