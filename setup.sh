#!/bin/sh
# Offline build of the framework from files on disk: Lean project (all models, proofs, oracle exe),
# fact extractor, correspondence harness and a git-lfs binary (-tags verif) from /repo's working tree.
set -e
cd "$(dirname "$0")"
exec ./check --prepare
