module extract

go 1.23.0
