// Probe: go/ast fact extractor -> Lean defs (byte lists), fails closed.
package main

import (
	"encoding/json"
	"fmt"
	"go/ast"
	"go/constant"
	"go/parser"
	"go/token"
	"os"
	"path/filepath"
	"strconv"
	"strings"
)

type pkg struct {
	files map[string]*ast.File
	decls map[string]ast.Expr // package-level const/var name -> value expr
}

func load(dir string) *pkg {
	fset := token.NewFileSet()
	pkgs, err := parser.ParseDir(fset, dir, func(fi os.FileInfo) bool { return !strings.HasSuffix(fi.Name(), "_test.go") }, 0)
	if err != nil {
		die("parse %s: %v", dir, err)
	}
	p := &pkg{files: map[string]*ast.File{}, decls: map[string]ast.Expr{}}
	for _, pk := range pkgs {
		for name, f := range pk.Files {
			p.files[name] = f
			for _, d := range f.Decls {
				gd, ok := d.(*ast.GenDecl)
				if !ok || (gd.Tok != token.CONST && gd.Tok != token.VAR) {
					continue
				}
				for _, s := range gd.Specs {
					vs := s.(*ast.ValueSpec)
					for i, n := range vs.Names {
						if i < len(vs.Values) {
							p.decls[n.Name] = vs.Values[i]
						}
					}
				}
			}
		}
	}
	return p
}

// die aborts the evaluation of ONE declaration (recovered in emit): the extractor fails closed per
// declaration, so that only the obligations that depend on it stay undischarged.
func die(f string, a ...interface{}) { panic(fmt.Sprintf(f, a...)) }

// eval evaluates constant string/int expressions and []string composite literals.
func (p *pkg) eval(e ast.Expr) interface{} {
	switch v := e.(type) {
	case *ast.BasicLit:
		switch v.Kind {
		case token.STRING:
			s, err := strconv.Unquote(v.Value)
			if err != nil {
				die("unquote %s", v.Value)
			}
			return s
		case token.INT:
			c := constant.MakeFromLiteral(v.Value, token.INT, 0)
			n, ok := constant.Int64Val(c)
			if !ok {
				die("int %s", v.Value)
			}
			return n
		}
	case *ast.Ident:
		if d, ok := p.decls[v.Name]; ok {
			return p.eval(d)
		}
	case *ast.BinaryExpr:
		a, b := p.eval(v.X), p.eval(v.Y)
		if as, ok := a.(string); ok && v.Op == token.ADD {
			return as + b.(string)
		}
		if ai, ok := a.(int64); ok {
			bi := b.(int64)
			switch v.Op {
			case token.ADD:
				return ai + bi
			case token.MUL:
				return ai * bi
			case token.SUB:
				return ai - bi
			}
		}
	case *ast.SelectorExpr: // time.Second etc. (nanoseconds)
		if id, ok := v.X.(*ast.Ident); ok && id.Name == "time" {
			switch v.Sel.Name {
			case "Nanosecond":
				return int64(1)
			case "Microsecond":
				return int64(1000)
			case "Millisecond":
				return int64(1000000)
			case "Second":
				return int64(1000000000)
			case "Minute":
				return int64(60000000000)
			}
		}
	case *ast.CompositeLit:
		var out []string
		for _, el := range v.Elts {
			s, ok := p.eval(el).(string)
			if !ok {
				die("non-string element")
			}
			out = append(out, s)
		}
		return out
	case *ast.CallExpr: // regexp.MustCompile("...") -> source string
		if se, ok := v.Fun.(*ast.SelectorExpr); ok && se.Sel.Name == "MustCompile" && len(v.Args) == 1 {
			return p.eval(v.Args[0])
		}
	}
	die("cannot evaluate %T", e)
	return nil
}

func (p *pkg) get(name string) interface{} {
	d, ok := p.decls[name]
	if !ok {
		die("declaration %s not found", name)
	}
	return p.eval(d)
}

// callKind reports which method is called on `recv` as the first call inside func `fn`
// (AST fact, e.g. DecodeFrom: reader.Read vs io.ReadFull).
func (p *pkg) callsIn(fn string) []string {
	var out []string
	for _, f := range p.files {
		for _, d := range f.Decls {
			fd, ok := d.(*ast.FuncDecl)
			if !ok || fd.Name.Name != fn {
				continue
			}
			ast.Inspect(fd.Body, func(n ast.Node) bool {
				if c, ok := n.(*ast.CallExpr); ok {
					if se, ok := c.Fun.(*ast.SelectorExpr); ok {
						if id, ok := se.X.(*ast.Ident); ok {
							out = append(out, id.Name+"."+se.Sel.Name)
						}
					}
				}
				return true
			})
		}
	}
	if out == nil {
		die("func %s not found", fn)
	}
	return out
}

// funcDecl finds a function or method declaration by name.
func (p *pkg) funcDecl(fn string) *ast.FuncDecl {
	for _, f := range p.files {
		for _, d := range f.Decls {
			if fd, ok := d.(*ast.FuncDecl); ok && fd.Name.Name == fn && fd.Body != nil {
				return fd
			}
		}
	}
	die("func %s not found", fn)
	return nil
}

// mapKeysIn: string keys of composite literals of type `typ` and of `x["key"] = …` assignments in func fn.
func (p *pkg) mapKeysIn(fn, typ string) []string {
	var out []string
	seen := map[string]bool{}
	add := func(e ast.Expr) {
		if bl, ok := e.(*ast.BasicLit); ok && bl.Kind == token.STRING {
			s, _ := strconv.Unquote(bl.Value)
			if !seen[s] {
				seen[s] = true
				out = append(out, s)
			}
		}
	}
	ast.Inspect(p.funcDecl(fn).Body, func(n ast.Node) bool {
		switch v := n.(type) {
		case *ast.CompositeLit:
			if id, ok := v.Type.(*ast.Ident); ok && id.Name == typ {
				for _, el := range v.Elts {
					if kv, ok := el.(*ast.KeyValueExpr); ok {
						add(kv.Key)
					}
				}
			}
		case *ast.AssignStmt:
			for _, l := range v.Lhs {
				if ix, ok := l.(*ast.IndexExpr); ok {
					add(ix.Index)
				}
			}
		}
		return true
	})
	if len(out) == 0 {
		die("no map keys found in %s", fn)
	}
	return out
}

// callArgAfter: in func fn, the call whose arguments contain the string literal `marker`; returns
// the source text of its last argument (e.g. the default of urlConfig.Bool(..., "protectProtocol", true)).
func (p *pkg) lastArgOfCallWith(fn, marker string) string {
	res := ""
	ast.Inspect(p.funcDecl(fn).Body, func(n ast.Node) bool {
		c, ok := n.(*ast.CallExpr)
		if !ok || len(c.Args) == 0 {
			return true
		}
		for _, a := range c.Args {
			if bl, ok := a.(*ast.BasicLit); ok && bl.Kind == token.STRING {
				if s, _ := strconv.Unquote(bl.Value); s == marker {
					if id, ok := c.Args[len(c.Args)-1].(*ast.Ident); ok {
						res = id.Name
					}
				}
			}
		}
		return true
	})
	if res == "" {
		die("no call with %q in %s", marker, fn)
	}
	return res
}

// intsComparedWith: integer literals compared (op) with an expression whose source text contains `marker`, inside func fn.
func (p *pkg) intsComparedWith(fn, marker string, op token.Token) []int64 {
	var out []int64
	ast.Inspect(p.funcDecl(fn).Body, func(n ast.Node) bool {
		b, ok := n.(*ast.BinaryExpr)
		if !ok || b.Op != op {
			return true
		}
		lit, ok := b.Y.(*ast.BasicLit)
		if !ok || lit.Kind != token.INT {
			return true
		}
		if strings.Contains(exprText(b.X), marker) {
			v, _ := strconv.ParseInt(lit.Value, 0, 64)
			out = append(out, v)
		}
		return true
	})
	if len(out) == 0 {
		die("no comparison with %s in %s", marker, fn)
	}
	return out
}

func exprText(e ast.Expr) string {
	switch v := e.(type) {
	case *ast.Ident:
		return v.Name
	case *ast.SelectorExpr:
		return exprText(v.X) + "." + v.Sel.Name
	case *ast.CallExpr:
		var a []string
		for _, x := range v.Args {
			a = append(a, exprText(x))
		}
		return exprText(v.Fun) + "(" + strings.Join(a, ",") + ")"
	}
	return "?"
}

func natList(xs []int64) string {
	var p []string
	for _, x := range xs {
		p = append(p, strconv.FormatInt(x, 10))
	}
	return "[" + strings.Join(p, ", ") + "]"
}

func sortStrings(a []string) {
	for i := 1; i < len(a); i++ {
		for j := i; j > 0 && a[j-1] > a[j]; j-- {
			a[j-1], a[j] = a[j], a[j-1]
		}
	}
}

func bytesLit(s string) string {
	parts := make([]string, len(s))
	for i := 0; i < len(s); i++ {
		parts[i] = strconv.Itoa(int(s[i]))
	}
	return "[" + strings.Join(parts, ", ") + "]"
}

var out strings.Builder
var facts = map[string]interface{}{}
var missing []string

// emit evaluates one declaration; a declaration that cannot be found or evaluated is NOT defaulted:
// nothing is emitted for it, so every theorem that mentions it fails to build.
func emit(name string, f func() string) {
	defer func() {
		if x := recover(); x != nil {
			missing = append(missing, fmt.Sprintf("%s: %v", name, x))
			fmt.Fprintf(&out, "-- MISSING %s: %v\n", name, x)
		}
	}()
	s := f()
	out.WriteString(s)
	if !strings.HasSuffix(s, "\n") {
		out.WriteString("\n")
	}
}

func bytesList(ss []string) string {
	var parts []string
	for _, s := range ss {
		parts = append(parts, bytesLit(s))
	}
	return "[" + strings.Join(parts, ",\n  ") + "]"
}

func (p *pkg) strs(name string) []string {
	v, ok := p.get(name).([]string)
	if !ok {
		die("%s is not a []string literal", name)
	}
	return v
}
func (p *pkg) str(name string) string {
	v, ok := p.get(name).(string)
	if !ok {
		die("%s is not a string constant", name)
	}
	return v
}
func (p *pkg) num(name string) int64 {
	v, ok := p.get(name).(int64)
	if !ok {
		die("%s is not an integer constant", name)
	}
	return v
}

func safeLoad(dir string) (p *pkg) {
	defer func() {
		if x := recover(); x != nil {
			missing = append(missing, fmt.Sprintf("package %s: %v", dir, x))
			p = &pkg{files: map[string]*ast.File{}, decls: map[string]ast.Expr{}}
		}
	}()
	return load(dir)
}

func main() {
	repo := os.Args[1]
	lfs := safeLoad(filepath.Join(repo, "lfs"))
	cfg := safeLoad(filepath.Join(repo, "config"))
	tq := safeLoad(filepath.Join(repo, "tq"))
	cmds := safeLoad(filepath.Join(repo, "commands"))
	_ = cfg
	_ = tq
	out.WriteString("-- GENERATED by extract/main.go from the working tree of " + repo + "; regenerated on every check run; do not edit\n")
	out.WriteString("namespace Gen\nabbrev Bytes := List UInt8\n")
	// ---- lfs/pointer.go (C07, C08, C01)
	emit("blobSizeCutoff", func() string { return fmt.Sprintf("def blobSizeCutoff : Nat := %d", lfs.num("blobSizeCutoff")) })
	emit("latest", func() string { return "def latest : Bytes := " + bytesLit(lfs.str("latest")) })
	emit("oidType", func() string { return "def oidType : Bytes := " + bytesLit(lfs.str("oidType")) })
	emit("v1Aliases", func() string { return "def v1Aliases : List Bytes := " + bytesList(lfs.strs("v1Aliases")) })
	emit("pointerKeys", func() string { return "def pointerKeys : List Bytes := " + bytesList(lfs.strs("pointerKeys")) })
	for _, re := range []string{"oidRE", "extRE", "matcherRE"} { // advisory facts only (DESIGN §2)
		re := re
		emit(re, func() string { facts[re] = lfs.str(re); return fmt.Sprintf("-- advisory: %s = %q", re, lfs.str(re)) })
	}
	emit("DecodeFrom calls", func() string {
		calls := lfs.callsIn("DecodeFrom")
		facts["DecodeFrom_calls"] = calls
		return fmt.Sprintf("-- advisory: calls in DecodeFrom: %v", calls)
	})
	// ---- config/git_fetcher.go + docs/man/git-lfs-config.adoc (C11)
	emit("safeKeys", func() string { return "def safeKeys : List Bytes := " + bytesList(cfg.strs("safeKeys")) })
	emit("docLfsconfigKeys", func() string {
		b, err := os.ReadFile(filepath.Join(repo, "docs", "man", "git-lfs-config.adoc"))
		if err != nil {
			die("%v", err)
		}
		txt := string(b)
		i := strings.Index(txt, "== LFSCONFIG")
		if i < 0 {
			die("no LFSCONFIG section in git-lfs-config.adoc")
		}
		txt = txt[i+len("== LFSCONFIG"):]
		if j := strings.Index(txt, "\n== "); j >= 0 {
			txt = txt[:j]
		}
		var keys []string
		for _, l := range strings.Split(txt, "\n") {
			if strings.HasPrefix(l, "* ") {
				keys = append(keys, strings.ReplaceAll(strings.TrimSpace(l[2:]), "\\", ""))
			}
		}
		if len(keys) == 0 {
			die("no keys listed in the LFSCONFIG section")
		}
		return "def docLfsconfigKeys : List Bytes := " + bytesList(keys)
	})
	// ---- commands/command_track.go (C19)
	emit("trackEscapeStrings", func() string { return "def trackEscapeStrings : List Bytes := " + bytesList(cmds.strs("trackEscapeStrings")) })
	emit("trackEscapePatterns", func() string {
		d, ok := cmds.decls["trackEscapePatterns"]
		if !ok {
			die("declaration trackEscapePatterns not found")
		}
		cl, ok := d.(*ast.CompositeLit)
		if !ok {
			die("trackEscapePatterns is not a composite literal")
		}
		var from, to []string
		for _, el := range cl.Elts {
			kv, ok := el.(*ast.KeyValueExpr)
			if !ok {
				die("unexpected element in trackEscapePatterns")
			}
			k, _ := cmds.eval(kv.Key).(string)
			v, _ := cmds.eval(kv.Value).(string)
			from = append(from, k)
			to = append(to, v)
		}
		// canonical order (the Go map has none)
		for i := 1; i < len(from); i++ {
			for j := i; j > 0 && from[j-1] > from[j]; j-- {
				from[j-1], from[j] = from[j], from[j-1]
				to[j-1], to[j] = to[j], to[j-1]
			}
		}
		return "def trackEscapeFrom : List Bytes := " + bytesList(from) + "\ndef trackEscapeTo : List Bytes := " + bytesList(to)
	})
	emit("prefixBlocklist", func() string { return "def prefixBlocklist : List Bytes := " + bytesList(cmds.strs("prefixBlocklist")) })
	// ---- lfs/hook.go, lfs/attribute.go (C20)
	emit("hooks", func() string {
		fd := lfs.funcDecl("LoadHooks")
		var names []string
		var ups [][]string
		ast.Inspect(fd.Body, func(n ast.Node) bool {
			c, ok := n.(*ast.CallExpr)
			if !ok {
				return true
			}
			if id, ok := c.Fun.(*ast.Ident); ok && id.Name == "NewStandardHook" && len(c.Args) >= 3 {
				name, ok := lfs.eval(c.Args[0]).(string)
				if !ok {
					die("hook type is not a string literal")
				}
				u, ok := lfs.eval(c.Args[2]).([]string)
				if !ok {
					die("upgradeables of %s are not a string list", name)
				}
				names = append(names, name)
				var uu []string
				for _, x := range u {
					uu = append(uu, strings.Replace(x, "{{Command}}", name, -1))
				}
				ups = append(ups, uu)
			}
			return true
		})
		if len(names) == 0 {
			die("no NewStandardHook calls in LoadHooks")
		}
		base := lfs.str("hookBaseContent")
		var b strings.Builder
		b.WriteString("def hookNames : List Bytes := " + bytesList(names) + "\n")
		var cur []string
		for _, n := range names {
			cur = append(cur, strings.Replace(base, "{{Command}}", n, -1))
		}
		b.WriteString("def hookCurrent : List Bytes := " + bytesList(cur) + "\n")
		var ul []string
		for _, u := range ups {
			ul = append(ul, bytesList(u))
		}
		b.WriteString("def hookUpgradeables : List (List Bytes) := [" + strings.Join(ul, ",\n ") + "]\n")
		return b.String()
	})
	emit("hookReadWindow", func() string { return fmt.Sprintf("def hookReadWindow : Nat := %d", lfs.num("hookSizeLimit")) })
	emit("filterAttribute", func() string {
		// the composite literal returned by filterAttribute(): Properties and Upgradeables
		props := map[string]string{}
		upg := map[string][]string{}
		ast.Inspect(lfs.funcDecl("filterAttribute").Body, func(n ast.Node) bool {
			kv, ok := n.(*ast.KeyValueExpr)
			if !ok {
				return true
			}
			key, _ := kv.Key.(*ast.Ident)
			cl, _ := kv.Value.(*ast.CompositeLit)
			if key == nil || cl == nil {
				return true
			}
			for _, el := range cl.Elts {
				e, ok := el.(*ast.KeyValueExpr)
				if !ok {
					continue
				}
				k, _ := lfs.eval(e.Key).(string)
				switch key.Name {
				case "Properties":
					v, _ := lfs.eval(e.Value).(string)
					props[k] = v
				case "Upgradeables":
					v, _ := lfs.eval(e.Value).([]string)
					upg[k] = v
				}
			}
			return false
		})
		if len(props) == 0 {
			die("filterAttribute properties not found")
		}
		var keys []string
		for k := range props {
			keys = append(keys, k)
		}
		sortStrings(keys)
		var vals []string
		var ups []string
		for _, k := range keys {
			vals = append(vals, props[k])
			ups = append(ups, bytesList(upg[k]))
		}
		return "def filterKeys : List Bytes := " + bytesList(keys) + "\ndef filterValues : List Bytes := " + bytesList(vals) +
			"\ndef filterUpgradeables : List (List Bytes) := [" + strings.Join(ups, ",\n ") + "]\n"
	})
	// ---- commands/command_filter_process.go + vendored pktline (C14)
	emit("pktlineMaxPacketLength", func() string {
		gomod, err := os.ReadFile(filepath.Join(repo, "go.mod"))
		if err != nil {
			die("%v", err)
		}
		ver := ""
		for _, l := range strings.Split(string(gomod), "\n") {
			f := strings.Fields(l)
			if len(f) >= 2 && f[0] == "github.com/git-lfs/pktline" {
				ver = f[1]
			}
		}
		if ver == "" {
			die("pktline version not found in go.mod")
		}
		modcache := os.Getenv("GOMODCACHE")
		if modcache == "" {
			modcache = filepath.Join(os.Getenv("HOME"), "go", "pkg", "mod")
		}
		pk := load(filepath.Join(modcache, "github.com", "git-lfs", "pktline@"+ver))
		facts["pktline_version"] = ver
		return fmt.Sprintf("def pktlineMaxPacketLength : Nat := %d", pk.num("MaxPacketLength"))
	})
	emit("cleanFilterBufferCapacity", func() string {
		return fmt.Sprintf("def cleanFilterBufferCapacity : Nat := %d", cmds.num("cleanFilterBufferCapacity"))
	})
	emit("smudgeFilterBufferCapacity", func() string {
		// declared as pktline.MaxPacketLength
		d, ok := cmds.decls["smudgeFilterBufferCapacity"]
		if !ok {
			die("declaration smudgeFilterBufferCapacity not found")
		}
		if se, ok := d.(*ast.SelectorExpr); ok && exprText(se) == "pktline.MaxPacketLength" {
			return "def smudgeFilterBufferCapacity : Nat := pktlineMaxPacketLength"
		}
		return fmt.Sprintf("def smudgeFilterBufferCapacity : Nat := %d", cmds.num("smudgeFilterBufferCapacity"))
	})
	// ---- tq (C06, C15)
	for _, n := range []string{"defaultBatchSize", "baseRetryDelayMs", "defaultMaxRetries", "defaultMaxRetryDelay"} {
		n := n
		emit(n, func() string { return fmt.Sprintf("def %s : Nat := %d", n, tq.num(n)) })
	}
	emit("objectExpirationToTransferNs", func() string {
		return fmt.Sprintf("def objectExpirationToTransferNs : Nat := %d", tq.num("objectExpirationToTransfer"))
	})
	// ---- lfshttp/client.go (C10)
	lh := safeLoad(filepath.Join(repo, "lfshttp"))
	emit("redirectStatuses", func() string {
		return "def redirectStatuses : List Nat := " + natList(lh.intsComparedWith("DoWithRedirect", "res.StatusCode", token.NEQ))
	})
	emit("redirectLimit", func() string {
		v := lh.intsComparedWith("DoWithRedirect", "len(via)", token.GEQ)
		if len(v) != 1 {
			die("expected exactly one `len(via) >= N` in DoWithRedirect, found %d", len(v))
		}
		return fmt.Sprintf("def redirectLimit : Nat := %d", v[0])
	})
	// ---- creds/creds.go (C17)
	crd := safeLoad(filepath.Join(repo, "creds"))
	emit("credProtectProtocolDefault", func() string {
		v := crd.lastArgOfCallWith("GetCredentialHelper", "protectProtocol")
		if v != "true" && v != "false" {
			die("default of credential.protectProtocol is not a boolean literal: %s", v)
		}
		return "def credProtectProtocolDefault : Bool := " + v
	})
	emit("credInputKeys", func() string {
		return "def credInputKeys : List Bytes := " + bytesList(crd.mapKeysIn("GetCredentialHelper", "Creds"))
	})
	out.WriteString("end Gen\n")
	if err := os.WriteFile(os.Args[2], []byte(out.String()), 0o644); err != nil {
		fmt.Fprintln(os.Stderr, err)
		os.Exit(1)
	}
	facts["missing"] = missing
	fb, _ := json.MarshalIndent(facts, "", " ")
	os.WriteFile(os.Args[3], fb, 0o644)
	for _, m := range missing {
		fmt.Fprintln(os.Stderr, "extract: MISSING", m)
	}
}
