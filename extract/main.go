// Probe: go/ast fact extractor -> Lean defs (byte lists), fails closed.
package main

import (
	"encoding/json"
	"fmt"
	"go/ast"
	"go/constant"
	"go/parser"
	"go/printer"
	"go/token"
	"os"
	"path/filepath"
	"strconv"
	"strings"
)

type pkg struct {
	files map[string]*ast.File
	decls map[string]ast.Expr // package-level const/var name -> value expr
}

func load(dir string) *pkg {
	fset := token.NewFileSet()
	pkgs, err := parser.ParseDir(fset, dir, func(fi os.FileInfo) bool { return !strings.HasSuffix(fi.Name(), "_test.go") }, 0)
	if err != nil {
		die("parse %s: %v", dir, err)
	}
	p := &pkg{files: map[string]*ast.File{}, decls: map[string]ast.Expr{}}
	for _, pk := range pkgs {
		for name, f := range pk.Files {
			p.files[name] = f
			for _, d := range f.Decls {
				gd, ok := d.(*ast.GenDecl)
				if !ok || (gd.Tok != token.CONST && gd.Tok != token.VAR) {
					continue
				}
				for _, s := range gd.Specs {
					vs := s.(*ast.ValueSpec)
					for i, n := range vs.Names {
						if i < len(vs.Values) {
							p.decls[n.Name] = vs.Values[i]
						}
					}
				}
			}
		}
	}
	return p
}

// die aborts the evaluation of ONE declaration (recovered in emit): the extractor fails closed per
// declaration, so that only the obligations that depend on it stay undischarged.
func die(f string, a ...interface{}) { panic(fmt.Sprintf(f, a...)) }

// eval evaluates constant string/int expressions and []string composite literals.
func (p *pkg) eval(e ast.Expr) interface{} {
	switch v := e.(type) {
	case *ast.BasicLit:
		switch v.Kind {
		case token.STRING:
			s, err := strconv.Unquote(v.Value)
			if err != nil {
				die("unquote %s", v.Value)
			}
			return s
		case token.INT:
			c := constant.MakeFromLiteral(v.Value, token.INT, 0)
			n, ok := constant.Int64Val(c)
			if !ok {
				die("int %s", v.Value)
			}
			return n
		}
	case *ast.Ident:
		if d, ok := p.decls[v.Name]; ok {
			return p.eval(d)
		}
	case *ast.BinaryExpr:
		a, b := p.eval(v.X), p.eval(v.Y)
		if as, ok := a.(string); ok && v.Op == token.ADD {
			return as + b.(string)
		}
		if ai, ok := a.(int64); ok {
			bi := b.(int64)
			switch v.Op {
			case token.ADD:
				return ai + bi
			case token.MUL:
				return ai * bi
			case token.SUB:
				return ai - bi
			}
		}
	case *ast.SelectorExpr: // time.Second etc. (nanoseconds)
		if id, ok := v.X.(*ast.Ident); ok && id.Name == "time" {
			switch v.Sel.Name {
			case "Nanosecond":
				return int64(1)
			case "Microsecond":
				return int64(1000)
			case "Millisecond":
				return int64(1000000)
			case "Second":
				return int64(1000000000)
			case "Minute":
				return int64(60000000000)
			}
		}
	case *ast.CompositeLit:
		var out []string
		for _, el := range v.Elts {
			s, ok := p.eval(el).(string)
			if !ok {
				die("non-string element")
			}
			out = append(out, s)
		}
		return out
	case *ast.CallExpr: // regexp.MustCompile("...") -> source string
		if se, ok := v.Fun.(*ast.SelectorExpr); ok && se.Sel.Name == "MustCompile" && len(v.Args) == 1 {
			return p.eval(v.Args[0])
		}
	}
	die("cannot evaluate %T", e)
	return nil
}

func (p *pkg) get(name string) interface{} {
	d, ok := p.decls[name]
	if !ok {
		die("declaration %s not found", name)
	}
	return p.eval(d)
}

// callKind reports which method is called on `recv` as the first call inside func `fn`
// (AST fact, e.g. DecodeFrom: reader.Read vs io.ReadFull).
func (p *pkg) callsIn(fn string) []string {
	var out []string
	for _, f := range p.files {
		for _, d := range f.Decls {
			fd, ok := d.(*ast.FuncDecl)
			if !ok || fd.Name.Name != fn {
				continue
			}
			ast.Inspect(fd.Body, func(n ast.Node) bool {
				if c, ok := n.(*ast.CallExpr); ok {
					if se, ok := c.Fun.(*ast.SelectorExpr); ok {
						if id, ok := se.X.(*ast.Ident); ok {
							out = append(out, id.Name+"."+se.Sel.Name)
						}
					}
				}
				return true
			})
		}
	}
	if out == nil {
		die("func %s not found", fn)
	}
	return out
}

// funcDecl finds a function or method declaration by name.
func (p *pkg) funcDecl(fn string) *ast.FuncDecl {
	// deterministic: map iteration order must not decide which declaration is read
	var all []*ast.FuncDecl
	for _, f := range p.files {
		for _, d := range f.Decls {
			if fd, ok := d.(*ast.FuncDecl); ok && fd.Name.Name == fn && fd.Body != nil {
				all = append(all, fd)
			}
		}
	}
	if len(all) == 1 {
		return all[0]
	}
	var plain []*ast.FuncDecl
	for _, fd := range all {
		if fd.Recv == nil {
			plain = append(plain, fd)
		}
	}
	if len(plain) == 1 {
		return plain[0]
	}
	if len(all) == 0 {
		die("func %s not found", fn)
	}
	die("func %s is ambiguous (%d declarations)", fn, len(all))
	return nil
}

// funcDeclRecv: func or method `fn`; recv == "" selects the package-level function, otherwise the
// method whose receiver type is recv (pointer or value).
func (p *pkg) funcDeclRecv(fn, recv string) *ast.FuncDecl {
	for _, f := range p.files {
		for _, d := range f.Decls {
			fd, ok := d.(*ast.FuncDecl)
			if !ok || fd.Name.Name != fn || fd.Body == nil {
				continue
			}
			r := ""
			if fd.Recv != nil && len(fd.Recv.List) == 1 {
				r = strings.TrimPrefix(exprText(fd.Recv.List[0].Type), "*")
			}
			if r == recv {
				return fd
			}
		}
	}
	die("func %s (receiver %q) not found", fn, recv)
	return nil
}

// fieldLiteralIn: the string literal assigned to `field:` in a composite literal inside package-level func fn
func (p *pkg) fieldLiteralIn(fn, field string) string {
	res, found := "", false
	ast.Inspect(p.funcDeclRecv(fn, "").Body, func(n ast.Node) bool {
		kv, ok := n.(*ast.KeyValueExpr)
		if !ok {
			return true
		}
		if id, ok := kv.Key.(*ast.Ident); ok && id.Name == field {
			if lit, ok := kv.Value.(*ast.BasicLit); ok && lit.Kind == token.STRING {
				res, _ = strconv.Unquote(lit.Value)
				found = true
			} else {
				die("%s in %s is not a string literal", field, fn)
			}
		}
		return true
	})
	if !found {
		die("no %s: in %s", field, fn)
	}
	return res
}

// fieldRegexIn: the string literal handed to regexp.MustCompile as the value of `field:` in a composite literal in fn
func (p *pkg) fieldRegexIn(fn, field string) string {
	res, found := "", false
	ast.Inspect(p.funcDeclRecv(fn, "").Body, func(n ast.Node) bool {
		kv, ok := n.(*ast.KeyValueExpr)
		if !ok {
			return true
		}
		if id, ok := kv.Key.(*ast.Ident); ok && id.Name == field {
			call, ok := kv.Value.(*ast.CallExpr)
			if !ok || len(call.Args) != 1 {
				die("%s in %s is not a one-argument call", field, fn)
			}
			lit, ok := call.Args[0].(*ast.BasicLit)
			if !ok || lit.Kind != token.STRING {
				die("%s in %s: the regular expression is not a string literal", field, fn)
			}
			res, _ = strconv.Unquote(lit.Value)
			found = true
		}
		return true
	})
	if !found {
		die("no %s: in %s", field, fn)
	}
	return res
}

func nodeText(e ast.Node) string {
	var sb strings.Builder
	printer.Fprint(&sb, token.NewFileSet(), e)
	return sb.String()
}

// walkConds visits every node under body and tells visit the conditions that enclose it, outermost first:
// if-conditions ("!(c)" on the else side, else-if chains included) and switch cases ("case a, b" / "default").
func walkConds(body ast.Node, visit func(n ast.Node, conds []string)) {
	var walk func(n ast.Node, conds []string)
	var doIf func(is *ast.IfStmt, conds []string)
	with := func(conds []string, c string) []string { return append(append([]string(nil), conds...), c) }
	doIf = func(is *ast.IfStmt, conds []string) {
		if is.Init != nil {
			walk(is.Init, conds)
		}
		walk(is.Cond, conds)
		walk(is.Body, with(conds, nodeText(is.Cond)))
		switch e := is.Else.(type) {
		case nil:
		case *ast.IfStmt:
			doIf(e, with(conds, "!("+nodeText(is.Cond)+")"))
		default:
			walk(e, with(conds, "!("+nodeText(is.Cond)+")"))
		}
	}
	walk = func(n ast.Node, conds []string) {
		if is, ok := n.(*ast.IfStmt); ok {
			doIf(is, conds)
			return
		}
		ast.Inspect(n, func(m ast.Node) bool {
			if m == nil {
				return true
			}
			if m != n {
				if is, ok := m.(*ast.IfStmt); ok {
					doIf(is, conds)
					return false
				}
				if cc, ok := m.(*ast.CaseClause); ok {
					label := "default"
					if len(cc.List) > 0 {
						var es []string
						for _, e := range cc.List {
							es = append(es, nodeText(e))
						}
						label = "case " + strings.Join(es, ", ")
					}
					for _, st := range cc.Body {
						walk(st, with(conds, label))
					}
					return false
				}
			}
			visit(m, conds)
			return true
		})
	}
	walk(body, nil)
}

// callsWithConds: every call `<x>.<sel>(...)` (or `<sel>(...)`) in func/method fn of recv, in source order: the
// argument texts, then after "|" the conditions that enclose the call.  "os.*": every call into that package
// (or on that identifier), recorded with the function's name.
func (p *pkg) callsWithConds(fn, recv, sel string) []string {
	var out []string
	walkConds(p.funcDeclRecv(fn, recv).Body, func(m ast.Node, conds []string) {
		call, ok := m.(*ast.CallExpr)
		if !ok {
			return
		}
		name, prefix := "", ""
		switch f := call.Fun.(type) {
		case *ast.SelectorExpr:
			name = f.Sel.Name
			if id, ok := f.X.(*ast.Ident); ok && strings.HasSuffix(sel, ".*") && id.Name == strings.TrimSuffix(sel, ".*") {
				prefix = id.Name + "." + name + ": "
				name = sel
			}
		case *ast.Ident:
			name = f.Name
		}
		if name == sel {
			var as []string
			for _, a := range call.Args {
				as = append(as, nodeText(a))
			}
			out = append(out, prefix+strings.Join(as, ", ")+" | "+strings.Join(conds, " && "))
		}
	})
	return out
}

// assignsWithConds: every assignment `<lhs> = <rhs>` in func/method fn of recv, in source order: the right-hand
// side, then after "|" the enclosing conditions
func (p *pkg) assignsWithConds(fn, recv, lhs string) []string {
	var out []string
	walkConds(p.funcDeclRecv(fn, recv).Body, func(m ast.Node, conds []string) {
		if as, ok := m.(*ast.AssignStmt); ok && len(as.Lhs) == 1 && len(as.Rhs) == 1 && as.Tok == token.ASSIGN {
			if nodeText(as.Lhs[0]) == lhs {
				out = append(out, nodeText(as.Rhs[0])+" | "+strings.Join(conds, " && "))
			}
		}
	})
	return out
}

// definesWithConds: like assignsWithConds for `lhs := rhs`
func (p *pkg) definesWithConds(fn, recv, lhs string) []string {
	var out []string
	walkConds(p.funcDeclRecv(fn, recv).Body, func(m ast.Node, conds []string) {
		if as, ok := m.(*ast.AssignStmt); ok && len(as.Lhs) == 1 && len(as.Rhs) == 1 && as.Tok == token.DEFINE {
			if nodeText(as.Lhs[0]) == lhs {
				out = append(out, lhs+" := "+nodeText(as.Rhs[0])+" | "+strings.Join(conds, " && "))
			}
		}
	})
	return out
}

// branchesWithConds: every `continue`/`break` (with its label) in func/method fn of recv, in source order, with
// the conditions that enclose it
func (p *pkg) branchesWithConds(fn, recv string, tok token.Token) []string {
	var out []string
	walkConds(p.funcDeclRecv(fn, recv).Body, func(m ast.Node, conds []string) {
		if b, ok := m.(*ast.BranchStmt); ok && b.Tok == tok {
			t := tok.String()
			if b.Label != nil {
				t += " " + b.Label.Name
			}
			out = append(out, t+" | "+strings.Join(conds, " && "))
		}
	})
	return out
}

// fieldExprIn: the source text of the value given to `field:` in a composite literal inside package-level func fn
func (p *pkg) fieldExprIn(fn, field string) string {
	res := ""
	ast.Inspect(p.funcDeclRecv(fn, "").Body, func(n ast.Node) bool {
		if kv, ok := n.(*ast.KeyValueExpr); ok {
			if id, ok := kv.Key.(*ast.Ident); ok && id.Name == field {
				res = exprText(kv.Value)
			}
		}
		return true
	})
	if res == "" {
		die("no %s: in %s", field, fn)
	}
	return res
}

// stringsComparedWith: string literals compared (op) with an expression containing marker in method fn of recv
func (p *pkg) stringsComparedWith(fn, marker string, op token.Token, recv string) []string {
	var out []string
	ast.Inspect(p.funcDeclRecv(fn, recv).Body, func(n ast.Node) bool {
		b, ok := n.(*ast.BinaryExpr)
		if !ok || b.Op != op {
			return true
		}
		lit, ok := b.Y.(*ast.BasicLit)
		if !ok || lit.Kind != token.STRING {
			return true
		}
		if strings.Contains(exprText(b.X), marker) {
			v, _ := strconv.Unquote(lit.Value)
			out = append(out, v)
		}
		return true
	})
	if len(out) == 0 {
		die("no string comparison with %s in %s", marker, fn)
	}
	return out
}

// mapKeysIn: string keys of composite literals of type `typ` and of `x["key"] = …` assignments in func fn.
func (p *pkg) mapKeysIn(fn, typ string) []string {
	var out []string
	seen := map[string]bool{}
	add := func(e ast.Expr) {
		if bl, ok := e.(*ast.BasicLit); ok && bl.Kind == token.STRING {
			s, _ := strconv.Unquote(bl.Value)
			if !seen[s] {
				seen[s] = true
				out = append(out, s)
			}
		}
	}
	ast.Inspect(p.funcDecl(fn).Body, func(n ast.Node) bool {
		switch v := n.(type) {
		case *ast.CompositeLit:
			if id, ok := v.Type.(*ast.Ident); ok && id.Name == typ {
				for _, el := range v.Elts {
					if kv, ok := el.(*ast.KeyValueExpr); ok {
						add(kv.Key)
					}
				}
			}
		case *ast.AssignStmt:
			for _, l := range v.Lhs {
				if ix, ok := l.(*ast.IndexExpr); ok {
					add(ix.Index)
				}
			}
		}
		return true
	})
	if len(out) == 0 {
		die("no map keys found in %s", fn)
	}
	return out
}

// callArgAfter: in func fn, the call whose arguments contain the string literal `marker`; returns
// the source text of its last argument (e.g. the default of urlConfig.Bool(..., "protectProtocol", true)).
func (p *pkg) lastArgOfCallWith(fn, marker string) string {
	res := ""
	ast.Inspect(p.funcDecl(fn).Body, func(n ast.Node) bool {
		c, ok := n.(*ast.CallExpr)
		if !ok || len(c.Args) == 0 {
			return true
		}
		for _, a := range c.Args {
			if bl, ok := a.(*ast.BasicLit); ok && bl.Kind == token.STRING {
				if s, _ := strconv.Unquote(bl.Value); s == marker {
					if id, ok := c.Args[len(c.Args)-1].(*ast.Ident); ok {
						res = id.Name
					}
				}
			}
		}
		return true
	})
	if res == "" {
		die("no call with %q in %s", marker, fn)
	}
	return res
}

// stringArgOfCall: the single string literal passed (position 0) to the only call of `callee` inside
// package-level func fn; dies when there is none, more than one, or the argument is not a literal.
func (p *pkg) stringArgOfCall(fn, callee string) string {
	var out []string
	ast.Inspect(p.funcDeclRecv(fn, "").Body, func(n ast.Node) bool {
		c, ok := n.(*ast.CallExpr)
		if !ok || len(c.Args) == 0 {
			return true
		}
		name := ""
		switch f := c.Fun.(type) {
		case *ast.Ident:
			name = f.Name
		case *ast.SelectorExpr:
			name = f.Sel.Name
		}
		if name != callee {
			return true
		}
		lit, ok := c.Args[0].(*ast.BasicLit)
		if !ok || lit.Kind != token.STRING {
			die("argument of %s in %s is not a string literal", callee, fn)
		}
		v, err := strconv.Unquote(lit.Value)
		if err != nil {
			die("%v", err)
		}
		out = append(out, v)
		return true
	})
	if len(out) != 1 {
		die("%d calls of %s in %s", len(out), callee, fn)
	}
	return out[0]
}

// boolArgOfCalls: for every call of `callee` (last selector or identifier name) inside method fn of
// recv, the boolean literal passed at position idx; dies when an argument is not a literal.
func (p *pkg) boolArgOfCalls(fn, recv, callee string, idx int) []bool {
	var out []bool
	ast.Inspect(p.funcDeclRecv(fn, recv).Body, func(n ast.Node) bool {
		c, ok := n.(*ast.CallExpr)
		if !ok {
			return true
		}
		name := ""
		switch f := c.Fun.(type) {
		case *ast.Ident:
			name = f.Name
		case *ast.SelectorExpr:
			name = f.Sel.Name
		}
		if name != callee {
			return true
		}
		if idx >= len(c.Args) {
			die("%s in %s has no argument %d", callee, fn, idx)
		}
		id, ok := c.Args[idx].(*ast.Ident)
		if !ok || (id.Name != "true" && id.Name != "false") {
			die("argument %d of %s in %s is not a boolean literal", idx, callee, fn)
		}
		out = append(out, id.Name == "true")
		return true
	})
	if len(out) == 0 {
		die("no call of %s in %s", callee, fn)
	}
	return out
}

// intsComparedWith: integer literals compared (op) with an expression whose source text contains `marker`, inside func fn.
func (p *pkg) intsComparedWith(fn, marker string, op token.Token) []int64 {
	var out []int64
	ast.Inspect(p.funcDecl(fn).Body, func(n ast.Node) bool {
		b, ok := n.(*ast.BinaryExpr)
		if !ok || b.Op != op {
			return true
		}
		lit, ok := b.Y.(*ast.BasicLit)
		if !ok || lit.Kind != token.INT {
			return true
		}
		if strings.Contains(exprText(b.X), marker) {
			v, _ := strconv.ParseInt(lit.Value, 0, 64)
			out = append(out, v)
		}
		return true
	})
	if len(out) == 0 {
		die("no comparison with %s in %s", marker, fn)
	}
	return out
}

func exprText(e ast.Expr) string {
	switch v := e.(type) {
	case *ast.Ident:
		return v.Name
	case *ast.SelectorExpr:
		return exprText(v.X) + "." + v.Sel.Name
	case *ast.StarExpr:
		return "*" + exprText(v.X)
	case *ast.CallExpr:
		var a []string
		for _, x := range v.Args {
			a = append(a, exprText(x))
		}
		return exprText(v.Fun) + "(" + strings.Join(a, ",") + ")"
	}
	return "?"
}

func natList(xs []int64) string {
	var p []string
	for _, x := range xs {
		p = append(p, strconv.FormatInt(x, 10))
	}
	return "[" + strings.Join(p, ", ") + "]"
}

func sortStrings(a []string) {
	for i := 1; i < len(a); i++ {
		for j := i; j > 0 && a[j-1] > a[j]; j-- {
			a[j-1], a[j] = a[j], a[j-1]
		}
	}
}

func bytesLit(s string) string {
	parts := make([]string, len(s))
	for i := 0; i < len(s); i++ {
		parts[i] = strconv.Itoa(int(s[i]))
	}
	return "[" + strings.Join(parts, ", ") + "]"
}


// ---- C18: struct tag tables and JSON schemas -> GenApi.lean

// structType finds `type <name> struct {…}` in the package.
func (p *pkg) structType(name string) *ast.StructType {
	for _, f := range p.files {
		for _, d := range f.Decls {
			gd, ok := d.(*ast.GenDecl)
			if !ok || gd.Tok != token.TYPE {
				continue
			}
			for _, s := range gd.Specs {
				ts := s.(*ast.TypeSpec)
				if ts.Name.Name == name {
					if st, ok := ts.Type.(*ast.StructType); ok {
						return st
					}
				}
			}
		}
	}
	die("struct type %s not found", name)
	return nil
}

// anonStructIn: the first anonymous struct type literal inside func fn (tq/verify.go's request body)
func (p *pkg) anonStructIn(fn string) *ast.StructType {
	var res *ast.StructType
	ast.Inspect(p.funcDeclRecv(fn, ""), func(n ast.Node) bool {
		if st, ok := n.(*ast.StructType); ok && res == nil {
			res = st
		}
		return true
	})
	if res == nil {
		die("no struct literal in %s", fn)
	}
	return res
}

// fieldTable: (Go name, JSON name, omitempty) per exported field in declaration order, `json:"-"` skipped;
// embedded fields and options other than omitempty abort the declaration (fail closed).
func fieldTable(st *ast.StructType) string {
	var rows []string
	for _, f := range st.Fields.List {
		if len(f.Names) == 0 {
			die("embedded field")
		}
		tag := ""
		if f.Tag != nil {
			t, err := strconv.Unquote(f.Tag.Value)
			if err != nil {
				die("tag %s", f.Tag.Value)
			}
			tag = reflectTag(t, "json")
		}
		for _, n := range f.Names {
			if !ast.IsExported(n.Name) {
				continue
			}
			js, omit := n.Name, false
			if tag == "-" {
				continue
			}
			if tag != "" {
				parts := strings.Split(tag, ",")
				if parts[0] != "" {
					js = parts[0]
				}
				for _, o := range parts[1:] {
					if o == "omitempty" {
						omit = true
					} else {
						die("json tag option %q", o)
					}
				}
			}
			rows = append(rows, fmt.Sprintf("(%q, %q, %v)", n.Name, js, omit))
		}
	}
	return "[" + strings.Join(rows, ", ") + "]"
}

func reflectTag(tag, key string) string {
	for tag != "" {
		i := 0
		for i < len(tag) && tag[i] == ' ' {
			i++
		}
		tag = tag[i:]
		if tag == "" {
			break
		}
		i = 0
		for i < len(tag) && tag[i] > ' ' && tag[i] != ':' && tag[i] != '"' {
			i++
		}
		if i == 0 || i+1 >= len(tag) || tag[i] != ':' || tag[i+1] != '"' {
			break
		}
		name := tag[:i]
		tag = tag[i+1:]
		i = 1
		for i < len(tag) && tag[i] != '"' {
			if tag[i] == '\\' {
				i++
			}
			i++
		}
		if i >= len(tag) {
			break
		}
		q := tag[:i+1]
		tag = tag[i+1:]
		if name == key {
			v, _ := strconv.Unquote(q)
			return v
		}
	}
	return ""
}

// schemaLean translates the JSON-Schema fragment used by the published LFS API schemas; any keyword
// outside that fragment aborts the declaration.
func schemaLean(v interface{}) string {
	m, ok := v.(map[string]interface{})
	if !ok {
		die("schema is not an object")
	}
	ty, props, req, items, min, addl := "none", "[]", "[]", "none", "none", "true"
	var keys []string
	for k := range m {
		keys = append(keys, k)
	}
	sortStrings(keys)
	for _, k := range keys {
		x := m[k]
		switch k {
		case "$schema", "title", "description":
		case "type":
			t, _ := x.(string)
			switch t {
			case "object", "array", "string", "number", "boolean", "null":
				ty = "(some .n" + t + ")"
			default:
				die("schema type %v", x)
			}
		case "properties":
			pm, ok := x.(map[string]interface{})
			if !ok {
				die("properties")
			}
			var pk []string
			for n := range pm {
				pk = append(pk, n)
			}
			sortStrings(pk)
			var rows []string
			for _, n := range pk {
				rows = append(rows, fmt.Sprintf("(%q, %s)", n, schemaLean(pm[n])))
			}
			props = "[" + strings.Join(rows, ",\n    ") + "]"
		case "required":
			l, ok := x.([]interface{})
			if !ok {
				die("required")
			}
			var rs []string
			for _, e := range l {
				rs = append(rs, fmt.Sprintf("%q", e.(string)))
			}
			req = "[" + strings.Join(rs, ", ") + "]"
		case "items":
			items = "(some " + schemaLean(x) + ")"
		case "minimum":
			f, ok := x.(float64)
			if !ok || f != float64(int64(f)) {
				die("minimum %v", x)
			}
			min = fmt.Sprintf("(some %d)", int64(f))
		case "additionalProperties":
			b, ok := x.(bool)
			if !ok {
				die("additionalProperties %v", x)
			}
			addl = fmt.Sprint(b)
		default:
			die("schema keyword %q is outside the modelled fragment", k)
		}
	}
	return fmt.Sprintf("(Api.Sch.mk %s %s %s %s %s %s)", ty, props, req, items, min, addl)
}

func readSchema(repo, pkgdir, name string) string {
	a, err := os.ReadFile(filepath.Join(repo, pkgdir, "schemas", name))
	if err != nil {
		die("%v", err)
	}
	b, err := os.ReadFile(filepath.Join(repo, "docs", "api", "schemas", name))
	if err != nil {
		die("%v", err)
	}
	if string(a) != string(b) {
		die("%s: the copy used by the %s tests differs from the published docs/api/schemas copy", name, pkgdir)
	}
	var v interface{}
	if err := json.Unmarshal(a, &v); err != nil {
		die("%s: %v", name, err)
	}
	return strings.ReplaceAll(schemaLean(v), ".n", ".")
}

var out strings.Builder
var facts = map[string]interface{}{}
var missing []string

// emit evaluates one declaration; a declaration that cannot be found or evaluated is NOT defaulted:
// nothing is emitted for it, so every theorem that mentions it fails to build.
func emit(name string, f func() string) {
	defer func() {
		if x := recover(); x != nil {
			missing = append(missing, fmt.Sprintf("%s: %v", name, x))
			fmt.Fprintf(&out, "-- MISSING %s: %v\n", name, x)
		}
	}()
	s := f()
	out.WriteString(s)
	if !strings.HasSuffix(s, "\n") {
		out.WriteString("\n")
	}
}

func bytesList(ss []string) string {
	var parts []string
	for _, s := range ss {
		parts = append(parts, bytesLit(s))
	}
	return "[" + strings.Join(parts, ",\n  ") + "]"
}

func (p *pkg) strs(name string) []string {
	v, ok := p.get(name).([]string)
	if !ok {
		die("%s is not a []string literal", name)
	}
	return v
}
func (p *pkg) str(name string) string {
	v, ok := p.get(name).(string)
	if !ok {
		die("%s is not a string constant", name)
	}
	return v
}
func (p *pkg) num(name string) int64 {
	v, ok := p.get(name).(int64)
	if !ok {
		die("%s is not an integer constant", name)
	}
	return v
}

func safeLoad(dir string) (p *pkg) {
	defer func() {
		if x := recover(); x != nil {
			missing = append(missing, fmt.Sprintf("package %s: %v", dir, x))
			p = &pkg{files: map[string]*ast.File{}, decls: map[string]ast.Expr{}}
		}
	}()
	return load(dir)
}

func main() {
	repo := os.Args[1]
	lfs := safeLoad(filepath.Join(repo, "lfs"))
	cfg := safeLoad(filepath.Join(repo, "config"))
	tq := safeLoad(filepath.Join(repo, "tq"))
	cmds := safeLoad(filepath.Join(repo, "commands"))
	_ = cfg
	_ = tq
	out.WriteString("-- GENERATED by extract/main.go from the working tree of " + repo + "; regenerated on every check run; do not edit\n")
	out.WriteString("namespace Gen\nabbrev Bytes := List UInt8\n")
	// ---- lfs/pointer.go (C07, C08, C01)
	emit("blobSizeCutoff", func() string { return fmt.Sprintf("def blobSizeCutoff : Nat := %d", lfs.num("blobSizeCutoff")) })
	emit("latest", func() string { return "def latest : Bytes := " + bytesLit(lfs.str("latest")) })
	emit("oidType", func() string { return "def oidType : Bytes := " + bytesLit(lfs.str("oidType")) })
	emit("v1Aliases", func() string { return "def v1Aliases : List Bytes := " + bytesList(lfs.strs("v1Aliases")) })
	emit("pointerKeys", func() string { return "def pointerKeys : List Bytes := " + bytesList(lfs.strs("pointerKeys")) })
	for _, re := range []string{"oidRE", "extRE", "matcherRE"} { // advisory facts only (DESIGN §2)
		re := re
		emit(re, func() string { facts[re] = lfs.str(re); return fmt.Sprintf("-- advisory: %s = %q", re, lfs.str(re)) })
	}
	emit("DecodeFrom calls", func() string {
		calls := lfs.callsIn("DecodeFrom")
		facts["DecodeFrom_calls"] = calls
		return fmt.Sprintf("-- advisory: calls in DecodeFrom: %v", calls)
	})
	// ---- lfs/gitscanner_log.go (C05): which lines of `git log -p` output count as pointer data.
	// The expression must have the frame ^([\+\- ])(A|B|...).*$ with literal alternatives; the alternatives
	// become LogScan's prefix list.
	emit("logDataPrefixes", func() string {
		re := lfs.fieldRegexIn("newLogScanner", "pointerDataRegex")
		facts["pointerDataRegex"] = re
		const head, tail = `^([\+\- ])(`, `).*$`
		if !strings.HasPrefix(re, head) || !strings.HasSuffix(re, tail) {
			die("pointerDataRegex %q does not have the frame %s...%s", re, head, tail)
		}
		alts := strings.Split(re[len(head):len(re)-len(tail)], "|")
		for _, a := range alts {
			if a == "" || strings.ContainsAny(a, `\.+*?()[]{}^$`) {
				die("pointerDataRegex alternative %q is not a literal", a)
			}
		}
		return "def logDataPrefixes : List Bytes := " + bytesList(alts)
	})
	// ---- config/git_fetcher.go + docs/man/git-lfs-config.adoc (C11)
	emit("safeKeys", func() string { return "def safeKeys : List Bytes := " + bytesList(cfg.strs("safeKeys")) })
	emit("docLfsconfigKeys", func() string {
		b, err := os.ReadFile(filepath.Join(repo, "docs", "man", "git-lfs-config.adoc"))
		if err != nil {
			die("%v", err)
		}
		txt := string(b)
		i := strings.Index(txt, "== LFSCONFIG")
		if i < 0 {
			die("no LFSCONFIG section in git-lfs-config.adoc")
		}
		txt = txt[i+len("== LFSCONFIG"):]
		if j := strings.Index(txt, "\n== "); j >= 0 {
			txt = txt[:j]
		}
		var keys []string
		for _, l := range strings.Split(txt, "\n") {
			if strings.HasPrefix(l, "* ") {
				keys = append(keys, strings.ReplaceAll(strings.TrimSpace(l[2:]), "\\", ""))
			}
		}
		if len(keys) == 0 {
			die("no keys listed in the LFSCONFIG section")
		}
		return "def docLfsconfigKeys : List Bytes := " + bytesList(keys)
	})
	// every reader of a repository-supplied configuration file (.lfsconfig in the working tree, the
	// index or HEAD) marks its source OnlySafeKeys: the flag ParseConfigLines is called with
	emit("lfsconfigReaderFlags", func() string {
		gitp := safeLoad(filepath.Join(repo, "git"))
		var fl []string
		for _, fn := range []string{"FileSource", "RevisionSource"} {
			for _, b := range gitp.boolArgOfCalls(fn, "Configuration", "ParseConfigLines", 1) {
				fl = append(fl, fmt.Sprint(b))
			}
		}
		// and ParseConfigLines hands the flag on unchanged
		if v := gitp.fieldExprIn("ParseConfigLines", "OnlySafeKeys"); v != "onlySafeKeys" {
			die("ParseConfigLines sets OnlySafeKeys to %q", v)
		}
		return "def lfsconfigReaderFlags : List Bool := [" + strings.Join(fl, ", ") + "]"
	})
	// the pattern with which tq.configureCustomAdapters recognises `lfs.customtransfer.<name>.path` keys:
	// the consumer that turns a configuration key into a program to run
	emit("customAdapterKeyPattern", func() string {
		return "def customAdapterKeyPattern : Bytes := " + bytesLit(tq.stringArgOfCall("configureCustomAdapters", "MustCompile"))
	})
	// ---- git/attribs.go (C19): which attribute files may DEFINE macros. Git honours `[attr]` lines in
	// $GIT_DIR/info/attributes and the top-level .gitattributes (and the global/system files), never in
	// a .gitattributes further down; `git lfs track` decides "already supported" from the same reading
	emit("attrFileMacroConditions", func() string {
		gitp := safeLoad(filepath.Join(repo, "git"))
		var conds []string
		ast.Inspect(gitp.funcDeclRecv("findAttributeFiles", "").Body, func(n ast.Node) bool {
			if kv, ok := n.(*ast.KeyValueExpr); ok {
				if id, ok := kv.Key.(*ast.Ident); ok && id.Name == "readMacros" {
					var sb strings.Builder
					printer.Fprint(&sb, token.NewFileSet(), kv.Value)
					conds = append(conds, sb.String())
				}
			}
			return true
		})
		if len(conds) == 0 {
			die("no readMacros: in findAttributeFiles")
		}
		return "def attrFileMacroConditions : List Bytes := " + bytesList(conds)
	})
	// ---- commands/uploader.go (C03): which remote-side commits a push leaves out of its scans.
	// uploadForRefUpdates collects `exclude` (fact: what is appended, and under which condition — "" = always);
	// uploadRangeOrAll hands it to the scanner (fact: the arguments of ScanMultiRangeToRemote).
	emit("uploadExclude", func() string {
		txt := func(e ast.Node) string {
			var sb strings.Builder
			printer.Fprint(&sb, token.NewFileSet(), e)
			return sb.String()
		}
		var appended, conds []string
		var walk func(n ast.Node, cond string)
		walk = func(n ast.Node, cond string) {
			ast.Inspect(n, func(m ast.Node) bool {
				if m == n {
					return true
				}
				if is, ok := m.(*ast.IfStmt); ok {
					walk(is.Body, txt(is.Cond))
					if is.Else != nil {
						walk(is.Else, "!("+txt(is.Cond)+")")
					}
					return false
				}
				if as, ok := m.(*ast.AssignStmt); ok && len(as.Lhs) == 1 && len(as.Rhs) == 1 {
					if id, ok := as.Lhs[0].(*ast.Ident); ok && id.Name == "exclude" {
						if call, ok := as.Rhs[0].(*ast.CallExpr); ok {
							if fn, ok := call.Fun.(*ast.Ident); ok && fn.Name == "append" && len(call.Args) == 2 {
								appended = append(appended, txt(call.Args[1]))
								conds = append(conds, cond)
							}
						}
					}
				}
				return true
			})
		}
		walk(cmds.funcDeclRecv("uploadForRefUpdates", "").Body, "")
		if len(appended) == 0 {
			die("uploadForRefUpdates no longer appends to `exclude`")
		}
		var scanArgs []string
		ast.Inspect(cmds.funcDeclRecv("uploadRangeOrAll", "").Body, func(n ast.Node) bool {
			if call, ok := n.(*ast.CallExpr); ok {
				if se, ok := call.Fun.(*ast.SelectorExpr); ok && se.Sel.Name == "ScanMultiRangeToRemote" {
					for _, a := range call.Args {
						scanArgs = append(scanArgs, txt(a))
					}
				}
			}
			return true
		})
		if len(scanArgs) == 0 {
			die("uploadRangeOrAll no longer calls ScanMultiRangeToRemote")
		}
		facts["uploadExclude"] = map[string]interface{}{"appended": appended, "conds": conds, "scanArgs": scanArgs}
		return "def uploadExcludeAppended : List Bytes := " + bytesList(appended) + "\ndef uploadExcludeConds : List Bytes := " + bytesList(conds) +
			"\ndef uploadScanArgs : List Bytes := " + bytesList(scanArgs)
	})
	// ---- tq/basic_download.go (C02, C09): what the basic download adapter does to the file system around a transfer:
	// every call into package os, and every rename, with the conditions under which it happens
	emit("basicDownloadFsCalls", func() string {
		tqp := safeLoad(filepath.Join(repo, "tq"))
		l := append(tqp.callsWithConds("DoTransfer", "basicDownloadAdapter", "os.*"), tqp.callsWithConds("DoTransfer", "basicDownloadAdapter", "RobustRename")...)
		facts["basicDownloadFsCalls"] = l
		return "def basicDownloadFsCalls : List Bytes := " + bytesList(l)
	})
	// ---- config/git_fetcher.go (C11): under which conditions a key of a safe-only source is let through
	emit("allowedAssignments", func() string {
		l := cfg.assignsWithConds("readGitConfig", "", "allowed")
		ig := cfg.assignsWithConds("readGitConfig", "", "ignored")
		facts["allowedAssignments"] = l
		facts["ignoredAssignments"] = ig
		// which sources define an extension (the names .lfsconfig alone mentions are dropped at the end)
		ex := append(cfg.assignsWithConds("readGitConfig", "", "definedByGit[name]"), cfg.assignsWithConds("readGitConfig", "", "extensions[name]")...)
		ex = append(ex, cfg.callsWithConds("readGitConfig", "", "delete")...)
		facts["extensionDefinitions"] = ex
		return "def allowedAssignments : List Bytes := " + bytesList(l) + "\ndef ignoredAssignments : List Bytes := " + bytesList(ig) +
			"\ndef extensionDefinitions : List Bytes := " + bytesList(ex)
	})
	// ---- lfs/attribute.go (C20): Attribute.Install only normalises and sets keys; it has no way back that
	// would remove a section
	emit("attributeInstallCalls", func() string {
		l := lfs.callsWithConds("Install", "Attribute", "a.*")
		facts["attributeInstallCalls"] = l
		return "def attributeInstallCalls : List Bytes := " + bytesList(l)
	})
	// ---- tools/filetools.go (C09): an object is put into place by ONE rename; nothing is moved aside first
	emit("renameIntoPlaceCalls", func() string {
		tp := safeLoad(filepath.Join(repo, "tools"))
		l := append(tp.callsWithConds("RenameFileCopyPermissions", "", "os.*"), tp.callsWithConds("RenameFileCopyPermissions", "", "RobustRename")...)
		facts["renameIntoPlaceCalls"] = l
		return "def renameIntoPlaceCalls : List Bytes := " + bytesList(l)
	})
	// ---- commands/command_fsck.go (C13): which checks run when none is asked for by name
	emit("fsckDefaults", func() string {
		l := append(cmds.assignsWithConds("fsckCommand", "", "fsckPointers"), cmds.assignsWithConds("fsckCommand", "", "fsckObjects")...)
		facts["fsckDefaults"] = l
		return "def fsckDefaults : List Bytes := " + bytesList(l)
	})
	// ---- commands/command_filter_process.go (C14): a pointer is remembered by path only for a blob that was delayed
	emit("filterDelayedPointers", func() string {
		l := cmds.assignsWithConds("filterCommand", "", `ptrs[req.Header["pathname"]]`)
		facts["filterDelayedPointers"] = l
		return "def filterDelayedPointers : List Bytes := " + bytesList(l)
	})
	// ---- tq/transfer_queue.go (C06, C15): an answered object is taken out of the request set at once
	emit("tqAnsweredOnce", func() string {
		l := tq.callsWithConds("enqueueAndCollectRetriesFor", "TransferQueue", "delete")
		facts["tqAnsweredOnce"] = l
		return "def tqAnsweredOnce : List Bytes := " + bytesList(l)
	})
	// ---- creds/creds.go (C17): the URL that URL-scoped credential settings are looked up with
	emit("credConfigURL", func() string {
		l := safeLoad(filepath.Join(repo, "creds")).callsWithConds("GetCredentialHelper", "CredentialHelperContext", "Sprintf")
		facts["credConfigURL"] = l
		return "def credConfigURL : List Bytes := " + bytesList(l)
	})
	// ---- commands/command_track.go (C19): a changed line is written where the old one stood
	emit("trackRewriteInPlace", func() string {
		l := cmds.callsWithConds("trackCommand", "", "WriteString")
		facts["trackRewriteInPlace"] = l
		return "def trackRewriteInPlace : List Bytes := " + bytesList(l)
	})
	// ---- commands/command_track.go (C19): which known lines are passed over when track looks for the line that
	// already supports its argument, and where it stops looking
	emit("trackKnownSkips", func() string {
		l := cmds.branchesWithConds("trackCommand", "", token.CONTINUE)
		l = append(l, cmds.definesWithConds("trackCommand", "", "sameFile")...)
		l = append(l, cmds.definesWithConds("trackCommand", "", "knownPath")...)
		l = append(l, cmds.assignsWithConds("trackCommand", "", "exact")...)
		facts["trackKnownSkips"] = l
		return "def trackKnownSkips : List Bytes := " + bytesList(l)
	})
	// ---- commands/command_merge_driver.go (C01): the inputs of a merge are private copies (a temporary file each,
	// filled by copying or smudging), never links into local storage; a failed smudge ends the merge
	emit("mergeInputCalls", func() string {
		l := append(cmds.callsWithConds("mergeProcessInput", "", "lfs.*"), cmds.callsWithConds("mergeProcessInput", "", "Exit")...)
		facts["mergeInputCalls"] = l
		return "def mergeInputCalls : List Bytes := " + bytesList(l)
	})
	// ---- commands/command_post_commit.go, command_post_checkout.go (C16): the hooks fall back on the full scan when
	// an attributes file is among the changed files
	emit("hookFullScans", func() string {
		l := append(cmds.callsWithConds("postCommitCommand", "", "FixAllLockableFileWriteFlags"), cmds.callsWithConds("postCheckoutRevChange", "", "postCheckoutFileChange")...)
		facts["hookFullScans"] = l
		return "def hookFullScans : List Bytes := " + bytesList(l)
	})
	// ---- tq/transfer.go (C15): an action's expiry is judged from both of its fields, as they are
	emit("actionExpiryArgs", func() string {
		l := tq.callsWithConds("IsExpiredWithin", "Action", "IsExpiredAtOrIn")
		facts["actionExpiryArgs"] = l
		return "def actionExpiryArgs : List Bytes := " + bytesList(l)
	})
	// ---- commands/command_unlock.go (C16): the guard of `unlock --id` finds the lock's path in the local cache
	// and, failing that, asks the server
	emit("unlockByIdLookups", func() string {
		l := cmds.callsWithConds("unlockAbortIfFileModifiedById", "", "SearchLocks")
		facts["unlockByIdLookups"] = l
		return "def unlockByIdLookups : List Bytes := " + bytesList(l)
	})
	// ---- lfsapi/auth.go (C15, C06): how often a request answered with an authentication error is submitted again
	emit("authResubmission", func() string {
		ap := safeLoad(filepath.Join(repo, "lfsapi"))
		entry := ap.callsWithConds("DoWithAuth", "Client", "doWithAuthResubmit")
		again := ap.callsWithConds("doWithAuthResubmit", "Client", "doWithAuthResubmit")
		max := ap.num("defaultMaxAuthAttempts")
		facts["authResubmission"] = map[string]interface{}{"entry": entry, "again": again, "max": max}
		return "def authResubmitEntry : List Bytes := " + bytesList(entry) + "\ndef authResubmitAgain : List Bytes := " + bytesList(again) +
			fmt.Sprintf("\ndef defaultMaxAuthAttempts : Nat := %d", max)
	})
	// ---- lfsapi/auth.go (C18, C10): after an auth error the Authorization header is deleted from the request only
	// when git-lfs itself had filled it from the credential helper — never a header the offered action supplied
	emit("authHeaderDeletions", func() string {
		l := safeLoad(filepath.Join(repo, "lfsapi")).callsWithConds("doWithAuth", "Client", "Del")
		facts["authHeaderDeletions"] = l
		return "def authHeaderDeletions : List Bytes := " + bytesList(l)
	})
	// ---- commands/command_track.go (C19)
	emit("trackEscapeStrings", func() string { return "def trackEscapeStrings : List Bytes := " + bytesList(cmds.strs("trackEscapeStrings")) })
	emit("trackEscapePatterns", func() string {
		d, ok := cmds.decls["trackEscapePatterns"]
		if !ok {
			die("declaration trackEscapePatterns not found")
		}
		cl, ok := d.(*ast.CompositeLit)
		if !ok {
			die("trackEscapePatterns is not a composite literal")
		}
		var from, to []string
		for _, el := range cl.Elts {
			kv, ok := el.(*ast.KeyValueExpr)
			if !ok {
				die("unexpected element in trackEscapePatterns")
			}
			k, _ := cmds.eval(kv.Key).(string)
			v, _ := cmds.eval(kv.Value).(string)
			from = append(from, k)
			to = append(to, v)
		}
		// canonical order (the Go map has none)
		for i := 1; i < len(from); i++ {
			for j := i; j > 0 && from[j-1] > from[j]; j-- {
				from[j-1], from[j] = from[j], from[j-1]
				to[j-1], to[j] = to[j], to[j-1]
			}
		}
		return "def trackEscapeFrom : List Bytes := " + bytesList(from) + "\ndef trackEscapeTo : List Bytes := " + bytesList(to)
	})
	emit("prefixBlocklist", func() string { return "def prefixBlocklist : List Bytes := " + bytesList(cmds.strs("prefixBlocklist")) })
	// ---- lfs/hook.go, lfs/attribute.go (C20)
	emit("hooks", func() string {
		fd := lfs.funcDecl("LoadHooks")
		var names []string
		var ups [][]string
		ast.Inspect(fd.Body, func(n ast.Node) bool {
			c, ok := n.(*ast.CallExpr)
			if !ok {
				return true
			}
			if id, ok := c.Fun.(*ast.Ident); ok && id.Name == "NewStandardHook" && len(c.Args) >= 3 {
				name, ok := lfs.eval(c.Args[0]).(string)
				if !ok {
					die("hook type is not a string literal")
				}
				u, ok := lfs.eval(c.Args[2]).([]string)
				if !ok {
					die("upgradeables of %s are not a string list", name)
				}
				names = append(names, name)
				var uu []string
				for _, x := range u {
					uu = append(uu, strings.Replace(x, "{{Command}}", name, -1))
				}
				ups = append(ups, uu)
			}
			return true
		})
		if len(names) == 0 {
			die("no NewStandardHook calls in LoadHooks")
		}
		base := lfs.str("hookBaseContent")
		var b strings.Builder
		b.WriteString("def hookNames : List Bytes := " + bytesList(names) + "\n")
		var cur []string
		for _, n := range names {
			cur = append(cur, strings.Replace(base, "{{Command}}", n, -1))
		}
		b.WriteString("def hookCurrent : List Bytes := " + bytesList(cur) + "\n")
		var ul []string
		for _, u := range ups {
			ul = append(ul, bytesList(u))
		}
		b.WriteString("def hookUpgradeables : List (List Bytes) := [" + strings.Join(ul, ",\n ") + "]\n")
		return b.String()
	})
	// every call of installHooks in package commands, as "<file>:<argument>": the hook installation that
	// other commands perform on their way never forces; only `git lfs update` passes its --force flag on
	emit("installHooksCalls", func() string {
		var calls []string
		for name, f := range cmds.files {
			ast.Inspect(f, func(n ast.Node) bool {
				ce, ok := n.(*ast.CallExpr)
				if !ok {
					return true
				}
				if id, ok := ce.Fun.(*ast.Ident); ok && id.Name == "installHooks" && len(ce.Args) == 1 {
					calls = append(calls, filepath.Base(name)+":"+exprText(ce.Args[0]))
				}
				return true
			})
		}
		if len(calls) == 0 {
			die("no installHooks call found")
		}
		sortStrings(calls)
		return "def installHooksCalls : List Bytes := " + bytesList(calls)
	})
	emit("hookReadWindow", func() string { return fmt.Sprintf("def hookReadWindow : Nat := %d", lfs.num("hookSizeLimit")) })
	emit("filterAttribute", func() string {
		// the composite literal returned by filterAttribute(): Properties and Upgradeables
		props := map[string]string{}
		upg := map[string][]string{}
		ast.Inspect(lfs.funcDecl("filterAttribute").Body, func(n ast.Node) bool {
			kv, ok := n.(*ast.KeyValueExpr)
			if !ok {
				return true
			}
			key, _ := kv.Key.(*ast.Ident)
			cl, _ := kv.Value.(*ast.CompositeLit)
			if key == nil || cl == nil {
				return true
			}
			for _, el := range cl.Elts {
				e, ok := el.(*ast.KeyValueExpr)
				if !ok {
					continue
				}
				k, _ := lfs.eval(e.Key).(string)
				switch key.Name {
				case "Properties":
					v, _ := lfs.eval(e.Value).(string)
					props[k] = v
				case "Upgradeables":
					v, _ := lfs.eval(e.Value).([]string)
					upg[k] = v
				}
			}
			return false
		})
		if len(props) == 0 {
			die("filterAttribute properties not found")
		}
		var keys []string
		for k := range props {
			keys = append(keys, k)
		}
		sortStrings(keys)
		var vals []string
		var ups []string
		for _, k := range keys {
			vals = append(vals, props[k])
			ups = append(ups, bytesList(upg[k]))
		}
		return "def filterKeys : List Bytes := " + bytesList(keys) + "\ndef filterValues : List Bytes := " + bytesList(vals) +
			"\ndef filterUpgradeables : List (List Bytes) := [" + strings.Join(ups, ",\n ") + "]\n"
	})
	// ---- commands/command_filter_process.go + vendored pktline (C14)
	emit("pktlineMaxPacketLength", func() string {
		gomod, err := os.ReadFile(filepath.Join(repo, "go.mod"))
		if err != nil {
			die("%v", err)
		}
		ver := ""
		for _, l := range strings.Split(string(gomod), "\n") {
			f := strings.Fields(l)
			if len(f) >= 2 && f[0] == "github.com/git-lfs/pktline" {
				ver = f[1]
			}
		}
		if ver == "" {
			die("pktline version not found in go.mod")
		}
		modcache := os.Getenv("GOMODCACHE")
		if modcache == "" {
			modcache = filepath.Join(os.Getenv("HOME"), "go", "pkg", "mod")
		}
		pk := load(filepath.Join(modcache, "github.com", "git-lfs", "pktline@"+ver))
		facts["pktline_version"] = ver
		return fmt.Sprintf("def pktlineMaxPacketLength : Nat := %d", pk.num("MaxPacketLength"))
	})
	emit("cleanFilterBufferCapacity", func() string {
		return fmt.Sprintf("def cleanFilterBufferCapacity : Nat := %d", cmds.num("cleanFilterBufferCapacity"))
	})
	emit("smudgeFilterBufferCapacity", func() string {
		// declared as pktline.MaxPacketLength
		d, ok := cmds.decls["smudgeFilterBufferCapacity"]
		if !ok {
			die("declaration smudgeFilterBufferCapacity not found")
		}
		if se, ok := d.(*ast.SelectorExpr); ok && exprText(se) == "pktline.MaxPacketLength" {
			return "def smudgeFilterBufferCapacity : Nat := pktlineMaxPacketLength"
		}
		return fmt.Sprintf("def smudgeFilterBufferCapacity : Nat := %d", cmds.num("smudgeFilterBufferCapacity"))
	})
	// ---- tq (C06, C15)
	for _, n := range []string{"defaultBatchSize", "baseRetryDelayMs", "defaultMaxRetries", "defaultMaxRetryDelay"} {
		n := n
		emit(n, func() string { return fmt.Sprintf("def %s : Nat := %d", n, tq.num(n)) })
	}
	emit("objectExpirationToTransferNs", func() string {
		return fmt.Sprintf("def objectExpirationToTransferNs : Nat := %d", tq.num("objectExpirationToTransfer"))
	})
	// ---- lfshttp/client.go (C10)
	lh := safeLoad(filepath.Join(repo, "lfshttp"))
	emit("redirectStatuses", func() string {
		return "def redirectStatuses : List Nat := " + natList(lh.intsComparedWith("DoWithRedirect", "res.StatusCode", token.NEQ))
	})
	emit("redirectLimit", func() string {
		v := lh.intsComparedWith("DoWithRedirect", "len(via)", token.GEQ)
		if len(v) != 1 {
			die("expected exactly one `len(via) >= N` in DoWithRedirect, found %d", len(v))
		}
		return fmt.Sprintf("def redirectLimit : Nat := %d", v[0])
	})
	// ---- creds/creds.go (C17)
	crd := safeLoad(filepath.Join(repo, "creds"))
	emit("credProtectProtocolDefault", func() string {
		v := crd.lastArgOfCallWith("GetCredentialHelper", "protectProtocol")
		if v != "true" && v != "false" {
			die("default of credential.protectProtocol is not a boolean literal: %s", v)
		}
		return "def credProtectProtocolDefault : Bool := " + v
	})
	emit("credInputKeys", func() string {
		return "def credInputKeys : List Bytes := " + bytesList(crd.mapKeysIn("GetCredentialHelper", "Creds"))
	})
	// ---- C18: request structs and published schemas -> GenApi.lean
	genOut := out.String()
	out.Reset()
	out.WriteString("-- GENERATED by extract/main.go from the working tree of /repo; regenerated on every check run; do not edit\nimport LfsModel.Api\nnamespace Gen\n")
	lk := safeLoad(filepath.Join(repo, "locking"))
	for _, t := range []string{"batchRequest", "batchRef", "Transfer"} {
		t := t
		emit(t+"Fields", func() string { return fmt.Sprintf("def %sFields : Api.FieldTbl := %s", t, fieldTable(tq.structType(t))) })
	}
	emit("verifyRequestFields", func() string {
		return "def verifyRequestFields : Api.FieldTbl := " + fieldTable(tq.anonStructIn("verifyUpload"))
	})
	for _, t := range []string{"lockRequest", "unlockRequest", "lockVerifiableRequest", "lockRef"} {
		t := t
		emit(t+"Fields", func() string { return fmt.Sprintf("def %sFields : Api.FieldTbl := %s", t, fieldTable(lk.structType(t))) })
	}
	emit("batchRequestSchema", func() string {
		return "def batchRequestSchema : Api.Sch :=\n  " + readSchema(repo, "tq", "http-batch-request-schema.json")
	})
	emit("lockCreateRequestSchema", func() string {
		return "def lockCreateRequestSchema : Api.Sch :=\n  " + readSchema(repo, "locking", "http-lock-create-request-schema.json")
	})
	emit("lockDeleteRequestSchema", func() string {
		return "def lockDeleteRequestSchema : Api.Sch :=\n  " + readSchema(repo, "locking", "http-lock-delete-request-schema.json")
	})
	emit("batchHashAlgo", func() string {
		// the hash algorithm announced in every batch request (tq.Batch) and the ones a response may name
		return fmt.Sprintf("def batchHashAlgo : String := %q", tq.fieldLiteralIn("Batch", "HashAlgorithm"))
	})
	emit("acceptedHashAlgos", func() string {
		var l []string
		for _, v := range tq.stringsComparedWith("Batch", "bRes.HashAlgorithm", token.NEQ, "tqClient") {
			l = append(l, fmt.Sprintf("%q", v))
		}
		return "def acceptedHashAlgos : List String := [" + strings.Join(l, ", ") + "]"
	})
	emit("lfsMediaType", func() string {
		lh2 := safeLoad(filepath.Join(repo, "lfshttp"))
		return fmt.Sprintf("def lfsMediaType : String := %q", lh2.str("MediaType"))
	})
	out.WriteString("end Gen\n")
	if err := os.WriteFile(filepath.Join(filepath.Dir(os.Args[2]), "GenApi.lean"), []byte(out.String()), 0o644); err != nil {
		fmt.Fprintln(os.Stderr, err)
		os.Exit(1)
	}
	out.Reset()
	out.WriteString(genOut)
	out.WriteString("end Gen\n")
	if err := os.WriteFile(os.Args[2], []byte(out.String()), 0o644); err != nil {
		fmt.Fprintln(os.Stderr, err)
		os.Exit(1)
	}
	facts["missing"] = missing
	fb, _ := json.MarshalIndent(facts, "", " ")
	os.WriteFile(os.Args[3], fb, 0o644)
	for _, m := range missing {
		fmt.Fprintln(os.Stderr, "extract: MISSING", m)
	}
}
