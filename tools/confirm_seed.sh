#!/bin/bash
# usage: confirm_seed.sh <worktree with the change applied> <demo command taking the tree path as $1>
# confirms: builds, full Go test suite passes with the change, demo fails with / passes without the change.
set -u
export GOFLAGS=-mod=mod GOPROXY=off GOSUMDB=off GOTOOLCHAIN=local GIT_CONFIG_GLOBAL=/dev/null GIT_CONFIG_NOSYSTEM=1
WT=$1; shift
cd "$WT" || exit 2
echo "== build"; go build ./... || { echo BUILD-FAILS; exit 1; }
echo "== demo with the change (must fail)"; ( "$@" "$WT" ) >/tmp/confirm.with.$$ 2>&1; RC1=$?; tail -3 /tmp/confirm.with.$$; echo "rc=$RC1"
git diff > /tmp/confirm.patch.$$; git checkout -q -- .
echo "== demo without the change (must pass)"; ( "$@" "$WT" ) >/tmp/confirm.without.$$ 2>&1; RC2=$?; tail -3 /tmp/confirm.without.$$; echo "rc=$RC2"
git apply /tmp/confirm.patch.$$; rm -f /tmp/confirm.patch.$$
echo "== full test suite with the change"; go test -vet=off -count=1 ./... 2>&1 | grep -v '^ok\|no test files' | head -20; RC3=${PIPESTATUS[0]}
echo "SUMMARY demo_with=$RC1 demo_without=$RC2 tests=$RC3"
rm -f /tmp/confirm.with.$$ /tmp/confirm.without.$$
