#!/bin/bash
# usage: try_seed.sh <Cxx> <worktree> [check ids...]   — confirm the seeded change in the worktree, then run ./check on /repo with it applied
set -u
P=$1; WT=$2; shift 2
CHECKS=${@:-$P}
cd "$WT" || exit 2
git diff -- . ':!seed_demo*' > $(dirname $WT)/$P.patch
[ -s $(dirname $WT)/$P.patch ] || { echo "no diff in $WT"; exit 2; }
/verif/tools/confirm_seed.sh "$WT" "$WT/seed_demo.sh" 2>&1 | tail -15
cd /verif
git -C /repo apply $(dirname $WT)/$P.patch || { echo APPLY-FAILED; exit 2; }
# evidence/ and evidence/replay/ must describe runs on /repo itself: keep them out of this trial
EVBAK=$(mktemp -d)
cp -a evidence/. $EVBAK/
for c in $CHECKS; do ./check $c quick 2>&1 | tail -6; done
git -C /repo checkout -- .
mkdir -p $(dirname $WT)/replays-$P && cp evidence/replay/$P-* $(dirname $WT)/replays-$P/ 2>/dev/null
rm -rf evidence && mkdir evidence && cp -a $EVBAK/. evidence/ && rm -rf $EVBAK
git -C /repo status --short | head
