#!/bin/bash
# usage: try_seed.sh <Cxx> <worktree> [check ids...]   — confirm the seeded change in the worktree, then run ./check on /repo with it applied
set -u
P=$1; WT=$2; shift 2
CHECKS=${@:-$P}
cd "$WT" || exit 2
git diff -- . ':!seed_demo*' > $(dirname $WT)/$P.patch
[ -s $(dirname $WT)/$P.patch ] || { echo "no diff in $WT"; exit 2; }
/verif/tools/confirm_seed.sh "$WT" "$WT/seed_demo.sh" 2>&1 | tail -15
cd /verif
git -C /repo apply $(dirname $WT)/$P.patch || { echo APPLY-FAILED; exit 2; }
for c in $CHECKS; do ./check $c quick 2>&1 | tail -6; done
git -C /repo checkout -- .
git -C /repo status --short | head
