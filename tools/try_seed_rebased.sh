#!/bin/bash
# usage: try_seed_rebased.sh <Cxx> <sub-agent worktree> [check ids...]
# The sub-agent's worktree predates repairs made to /repo meanwhile: take its change as a patch, apply it to a fresh
# worktree at /repo's HEAD and run the isolated trial there (SKIP_CONFIRM=1: the sub-agent confirmed its own demo).
# The fresh worktree is removed afterwards; the patch stays next to the original worktree.
set -u
P=$1; WT=$2; shift 2
D=$(dirname $WT)
git -C "$WT" diff -- . ':!seed_demo*' > $D/$P.patch
[ -s $D/$P.patch ] || { echo "no diff in $WT"; exit 2; }
R=$D/${P}r
git -C /repo worktree remove --force $R 2>/dev/null
git -C /repo worktree add -q --detach $R HEAD || exit 2
if ! git -C $R apply $D/$P.patch; then echo "patch does not apply to HEAD"; git -C /repo worktree remove --force $R; exit 3; fi
cp $D/$P.patch $D/${P}r.patch
SKIP_CONFIRM=1 /verif/tools/try_seed_iso.sh ${P}r $R ${@:-$P} 2>&1 | grep -v KNOWN-FINDING | tail -4
git -C /repo worktree remove --force $R
