#!/bin/bash
# usage: regress_seeds.sh <out-file> [seed-dir-glob]   — every saved seed again: its patch on a fresh worktree at /repo's
# HEAD, the property's quick check in an isolated copy of /verif.  One line per seed: caught | MISSED | no-apply.
OUT=$1; GLOB=${2:-/verif/seeded/*}
: > $OUT
for d in $GLOB; do
  [ -f $d/patch.diff ] || continue
  P=$(basename $d | cut -c1-3)
  WT=/tmp/regress/${P}x
  mkdir -p /tmp/regress
  git -C /repo worktree remove --force $WT 2>/dev/null
  git -C /repo worktree add -q --detach $WT HEAD || continue
  if ! git -C $WT apply $d/patch.diff 2>/dev/null; then
    echo "$(basename $d) no-apply" >> $OUT
  else
    R=$(SKIP_CONFIRM=1 /verif/tools/try_seed_iso.sh ${P}x $WT $P 2>&1 | grep -c '^VIOLATION')
    if [ "$R" -gt 0 ]; then echo "$(basename $d) caught" >> $OUT; else echo "$(basename $d) MISSED" >> $OUT; fi
  fi
  git -C /repo worktree remove --force $WT
  rm -rf /tmp/regress/replays-${P}x /tmp/regress/${P}x.patch
done
rm -rf /tmp/regress
