#!/bin/bash
# usage: tools/sweep.sh <tier> <seed>...   runs every claimed check for each seed, prints one line per run
cd "$(dirname "$0")/.."
TIER=$1; shift
for seed in "$@"; do
  for p in $(python3 -c "import json;print(' '.join(c['property_id'] for c in json.load(open('MANIFEST.json'))['checks']))"); do
    OUT=$(VERIF_SEED=$seed ./check $p $TIER 2>&1 | grep -v 'WARNING\|KNOWN-FINDING')
    echo "seed=$seed $(echo "$OUT" | grep -c VIOLATION) $(echo "$OUT" | grep "^$p" | tail -1)"
  done
done
