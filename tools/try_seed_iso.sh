#!/bin/bash
# usage: try_seed_iso.sh <Cxx> <worktree> [check ids...]
# Like try_seed.sh, but /repo is left alone (a long sweep may be reading it): a scratch copy of /verif is
# pointed at the worktree — which holds the seeded change — through VERIF_REPO and the harness's replace
# directive.  The copy is removed afterwards; replays are kept next to the worktree.
set -u
P=$1; WT=$2; shift 2
CHECKS=${@:-$P}
cd "$WT" || exit 2
git diff -- . ':!seed_demo*' > $(dirname $WT)/$P.patch
[ -s $(dirname $WT)/$P.patch ] || { echo "no diff in $WT"; exit 2; }
[ -n "${SKIP_CONFIRM:-}" ] || /verif/tools/confirm_seed.sh "$WT" "$WT/seed_demo.sh" 2>&1 | tail -15
# the worktree may predate hooks added to /repo since it was made: overlay the verif-tagged files for the trial
HOOKS=$(cd /repo && grep -rl '^//go:build verif' --include=*.go . | grep -v _test.go)
for h in $HOOKS; do cp /repo/$h $WT/$h; done
ISO=$(mktemp -d /tmp/vtrial-$P-XXXX)
rsync -a --exclude build --exclude .git /verif/ $ISO/
sed -i "s#=> /repo#=> $WT#" $ISO/harness/go.mod
mkdir -p $ISO/build
for c in $CHECKS; do (cd $ISO && VERIF_REPO=$WT ./check $c quick 2>&1 | tail -6); done
mkdir -p $(dirname $WT)/replays-$P && for c in $CHECKS; do cp $ISO/evidence/replay/$c-* $(dirname $WT)/replays-$P/ 2>/dev/null; done
rm -rf $ISO
for h in $HOOKS; do
  if git -C $WT ls-files --error-unmatch $h >/dev/null 2>&1; then git -C $WT checkout -- $h; else rm -f $WT/$h; fi
done
