#!/bin/bash
# usage: save_seed.sh <Cxx> <slug> <worktree>  — copy patch + demo into /verif/seeded/<Cxx>-<slug>/ and remove the worktree
set -eu
P=$1; S=$2; WT=$3
D=/verif/seeded/$P-$S
mkdir -p $D
cp $(dirname $WT)/$P.patch $D/patch.diff
cp $WT/seed_demo.sh $D/demo.sh
[ -d $WT/seed_demo ] && cp -r $WT/seed_demo $D/seed_demo
git -C /repo worktree remove --force $WT
rm -rf $(dirname $WT)/bin-$P
ls $D
