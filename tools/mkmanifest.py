#!/usr/bin/env python3
"""Regenerates /verif/MANIFEST.json from the table below (kept valid at all times)."""
import json, os
V = os.path.dirname(os.path.dirname(os.path.abspath(__file__)))
TB = ("Trusted: Lean 4.33 kernel (+leanchecker in thorough), axioms propext/Classical.choice/Quot.sound only (audited by #print axioms on every run; "
      "no sorry/native_decide/bv_decide/own axioms); the go/ast fact extractor; the hand-written model is tied to the code only by the seeded "
      "differential campaign (agreement on generated cases, distributions in the evidence); Go runtime/stdlib, git and the OS are modelled, not verified. ")
CLAIMED = {
 "C07": dict(
   text="Lean theorems over the executable pointer-codec model for ALL byte strings / ALL valid pointers (dec_enc, enc_injective, dec_sound, canonical_iff, cutoff), "
        "constants re-extracted from lfs/pointer.go on every run and tied by decide-obligations; model tied to lfs.DecodePointer/Encoded by a 40k-case (quick) differential run; "
        "a Go-side property oracle (spec-canonical form written from docs/spec.md) supplies replays.",
   note=TB + "regexp/bufio/strconv/bytes.TrimSpace are re-implemented in the model and tied by correspondence only.",
   technique="Lean 4 proof (structural induction over the codec model) + regenerated-constant obligations + differential correspondence vs lfs.DecodePointer",
   ref="§5 C07, Appendix E"),
 "C08": dict(
   text="Lean theorems for EVERY chunking of EVERY byte string over the executable clean/smudge model with the real decoder model plugged in (chunk independence, pointer pass-through, "
        "content in full, >=1024 bytes is content, never a pointer to a pointer, smudge pass-through of non-pointers); model tied to the real clean()/smudge() command path by a differential "
        "campaign through `git-lfs verif-filter` (deterministic short reads), Go-side dichotomy oracle computed from the bytes alone supplies replays.",
   note=TB + "Pipe/pkt-line delivery is modelled by Stream (chunks + EOF style); extension programs are outside the model (D20).",
   technique="Lean 4 proof (refinement of the stream-level filter to a byte-level spec via readFull_spec) + differential correspondence through the real command path",
   ref="§5 C08, Appendices A/H"),
 "C01": dict(
   text="Lean theorems: clean keeps the store intact, the emitted pointer names hash and length of what is stored, clean-then-smudge returns the original bytes for every chunking on both sides "
        "(under explicit hypotheses on SHA-256), empty round trip, existing objects never overwritten, merge-driver output exact; tied to the real filters by the same differential campaign "
        "incl. file-at-path states and round trips, plus the merge driver run for real.",
   note=TB + "SHA-256 is abstract in the theorems (hypotheses stated); extension programs assumed inverse and not modelled; clonefile path not reachable here.",
   technique="Lean 4 proof (invariant Intact + round-trip via C07.dec_enc) + differential correspondence through the real command path",
   ref="§5 C01, Appendix H"),
 "C17": dict(
   text="Lean theorems for ALL credential maps (any iteration order of the Go map): refusal iff some value contains LF/NUL (or CR under protection); otherwise the helper's line grammar reads back the two "
        "capability lines and exactly the supplied pairs, line count = 2 + #values; default of credential.protectProtocol and git-lfs's own key set regenerated from creds/creds.go and checked by decide; "
        "model tied to Creds.buffer in-process (50k maps quick) and end-to-end through `git credential` with a recording helper.",
   note=TB + "`git credential`'s own parsing and re-serialisation is git's; net/url percent-decoding is exercised end-to-end only.",
   technique="Lean 4 proof (line-grammar round trip by induction) + regenerated-fact obligations + differential correspondence vs creds.Creds.buffer",
   ref="§5 C17, Appendix L"),
 "C11": dict(
   text="Lean theorems for ALL line lists of an OnlySafeKeys source: only documented keys reach the value map, no extension is ever registered, no key of a dangerous family (exec, credential helper, proxy, "
        "ssh command, transfer agent, extension, remote url) is stored, git's own configuration wins; config.safeKeys and the LFSCONFIG list of the manual are regenerated and tied by decide; "
        "model tied to readGitConfig in-process over the whole generated key space and end-to-end through hostile .lfsconfig files (worktree/index/HEAD) with a sentinel program.",
   note=TB + "`git config -l` output format is git's; the model starts from the line list.",
   technique="Lean 4 proof (case analysis of the key filter + fold invariant) + regenerated allow-list obligations + differential correspondence vs config.readGitConfig",
   ref="§5 C11"),
 "C10": dict(
   text="Lean theorems over the executable redirect/401 flow model for ALL listener tables, node graphs, access modes and helper behaviours: every emitted request that carries an Authorization value carries "
        "one obtained for its own scheme/host/effective port (auth_confined, header_confined), no https->http hop exists in any chain, a chain has at most redirectLimit requests; redirect status list and hop "
        "limit regenerated from lfshttp/client.go; the model's request trace is compared with the trace real listeners (plain/TLS, two ports, two host spellings, implicit ports 80/443) receive from the "
        "in-process lfsapi.Client; the Go oracle decodes every received Authorization value back to the place it was issued for.",
   note=TB + "NTLM/Negotiate and multistage credentials are not modelled; net/http and TLS are real but their fidelity is the harness's; 401 sequences are finite by construction (aside A2).",
   technique="Lean 4 proof (invariant over the emitted-request trace by induction on fuel) + regenerated-constant obligations + trace correspondence vs lfsapi.Client on real listeners",
   ref="§5 C10, Appendix K"),
 "C02": dict(
   text="Lean theorems over the executable model of the basic HTTP download adapter for ALL finite server scripts, .part states, sizes and retry sequences: success => the final file hashes to the oid, "
        "failure => the final path is unchanged, the hashed bytes are the file's bytes, a retry sequence keeps the final path intact; every adapter attempt of the campaign (real adapter in process, scripted "
        "storage server incl. cut connections, malformed/overflowing Content-Range, stale .part files) is compared with one model call (outcome class, .part hash, final hash); the Go oracle re-hashes the final "
        "file after every attempt.",
   note=TB + "The tus adapter is upload-only (n/a). The concurrency theorem is about the model's step granularity (one rename, one write burst); what the OS guarantees about rename(2) and O_EXCL is assumed, the concurrent real runs sample schedules. A TOCTOU change of the agent's file between hashing and rename is outside the model. HTTP stack and TCP cuts are real; their fidelity is the harness's.",
   technique="Lean 4 proof (case analysis over the download state machine with file and hasher state separate) + per-attempt differential correspondence vs the real adapter",
   ref="§5 C02, Appendix J"),
 "C06": dict(
   text="Lean theorems over the transfer-queue event system (status map per oid; all interleavings = all accepted event lists): accounting invariant in every reachable state (counter = #live oids, never negative, "
        "no duplicates, delivered only after a successful transfer), conservation at Wait return (delivered / no action / errored), termination measure strictly decreasing on every non-add event, no stuck state, "
        "Add enabled when there is room; trace validation proved sound (an accepted trace is a model run). The real TransferQueue runs in child processes against scripted batch server + adapter; every observed "
        "VerifTrace event list is validated against the model (each event enabled, each retry/drop/deliver decision equal), delivery counts compared; watchdog/panic/conservation oracle on the observations.",
   note=TB + "Interleavings are explored at event granularity in the proof; below that (races inside handleTransferResult) only the real runs speak. Channel capacity is not validated from traces (the trace point precedes the blocking send); Add liveness is the watchdog's.",
   technique="Lean 4 proof (invariant + termination measure + progress over an event system) + trace validation of the real queue against the model",
   ref="§5 C06, Appendices F/R"),
 "C15": dict(
   text="Lean theorems: retry counter <= maxRetries in every reachable state, a retry is counted or ends the object, non-retriable outcomes are terminal and terminal is absorbing, a batch only takes waiting objects "
        "(never two in flight), an expired action is never handed to the adapter, back-off <= configured maximum incl. uint64 wrap-around (exact until the cap, capped after, for maxMs < 2^57), zero means zero, "
        "nothing is batched before its ready time; tq constants regenerated; the queue campaign's timestamped server/adapter logs are judged (attempt counts, Retry-After, overlap, terminal failures), ReadyTime and the "
        "manifest's reading of the settings are compared with the model directly.",
   note=TB + "Time is real in the campaign (comparisons are 'not earlier than' with slack); the timed part of the model is the Concat partition only.",
   technique="Lean 4 proof (invariants over the event system + modular arithmetic on wrapped uint64) + trace validation and timestamp oracle on the real queue",
   ref="§5 C15, Appendix N"),
 "C14": dict(
   text="Lean theorems: pkt-line framing round trip for every well-formed packet list; the payload reader returns the first n payload bytes for every packetisation; every rendered answer is well-formed (content packets "
        "non-empty and <= 65516, for both writer capacities regenerated from the source); content packets carry exactly the content; clean content = one-shot clean output for every packetisation; non-pointer smudge = "
        "payload; delay only when offered and not local; for every schedule the announced lists concatenate to the delayed set (each exactly once), every round but the last is non-empty, the last is empty. The harness "
        "plays Git against the real filter-process (random programs, packetisations from 1 byte to 65516, local/server/missing/failing objects, delay on/off), an independent pkt-line parser checks the grammar, contents "
        "are compared with the bytes-only oracle and with the model per request.",
   note=TB + "Termination of the delay rounds is relative to C06 and server fairness; goroutine timing of infiniteTransferBuffer is abstracted to 'some schedule ks'. D22 (exit 2 mid-exchange on an undownloadable object) is a known finding.",
   technique="Lean 4 proof (framing round trip, writer bounds, schedule-independent delay rounds) + protocol-level differential correspondence against the real filter-process",
   ref="§5 C14, Appendix I"),
 "C09": dict(
   text="Lean theorems over an operation-list model of the storage area (SIGKILL = any prefix): if a list runs under the storage discipline then every prefix leaves every object hash-valid; operations outside objects/ never "
        "change local storage; for the store-one-object scenario a re-run after a kill at ANY operation reaches the uninterrupted state. Crash-point enumeration on the real binary (hooks at temp creation, every write burst, "
        "every rename/link/unlink): one run per (point, occurrence) with SIGKILL, then every object re-hashed, leftovers confined, the command re-run and local storage compared with an uninterrupted run; the traced "
        "operations of each scenario are replayed in the model (they must run under the discipline).",
   note=TB + "Atomicity granularity is one write burst (the hook's), not one byte; power loss/fsync is out of scope by the property's own text; working-tree files are outside the property. The re-run theorem is proved for the create/append/rename shape only; fsck/prune re-runs are checked by enumeration.",
   technique="Lean 4 proof (prefix-closed invariant over operation lists + re-run theorem) + exhaustive crash-point enumeration with SIGKILL on the real binary",
   ref="§5 C09, Appendix O"),
 "C20": dict(
   text="Lean theorems over the hook/attribute installer model: a hook file that is not (after undent+trim, in full, within the read window) a current or historical template and is not blank is byte-identical after "
        "install/update/uninstall without --force and the conflict is reported; files longer than the window are always foreign; only generated or blank files are ever overwritten/removed; install twice = once; uninstall "
        "after install restores absent and user-owned hooks; filter.lfs.* values that are neither empty nor upgradeable are never replaced without --force; all templates regenerated from lfs/hook.go and decided to be "
        "fixpoints of the normaliser, recognised, and `git lfs` shell scripts. Scenario runs of the real binary over planted hook/filter states and command sequences are judged by a plant-aware oracle and compared with the model.",
   note=TB + "Scope resolution (--local/--worktree/--system/--file) is delegated to `git config`; blank hook files count as nothing to destroy; uninstall's documented removal of the whole filter.lfs section is not asserted either way (I2).",
   technique="Lean 4 proof (case analysis of the matcher + decide over the regenerated template tables) + scenario correspondence against the real binary",
   ref="§5 C20"),
 "C19": dict(
   text="Lean theorems: what `--filename n` writes, lexed by Git's wildmatch rules, is exactly the literal characters of n (blank as the whitespace class) for EVERY byte string n; it matches n; it matches only names equal to n "
        "modulo whitespace at n's blanks (full equality for names without a blank); the written pattern field survives Git's line tokeniser for names without a tab; the per-byte escape map equals the regenerated tables on "
        "all 256 bytes. The escaping functions are compared with the model in process; the model's matcher fragment is compared with real `git check-attr`; real track/untrack runs are judged by `git check-attr` over the "
        "name, its neighbours and pre-existing patterns (idempotence, untrack, other lines unchanged).",
   note=TB + "Git's matcher is a spec validated against git 2.39.5 only; pattern (non --filename) arguments are judged by scenario runs, the Lean theorems cover the --filename fragment; a slash-less pattern matches at any depth (Git's rule, not asserted against). Known findings D9a/D9b/D9c/D30.",
   technique="Lean 4 proof (lexer/escape round trip by induction over the name) + decide over the regenerated tables + differential correspondence vs the real escaping and vs git check-attr",
   ref="§5 C19"),
 "C03": dict(
   text="Lean theorems: the set-level argument (if every excluded commit is reachable from the remote's current refs, rev-list lists what no excluded commit references, listed objects are on the server after exit 0 and the server only gains, "
        "then the server invariant extends to the pushed tip) with every premise explicit; the exclusion computed by the code satisfies the first premise for a fresh cache (partial) and is refuted by two decided counterexamples (D23, D24 known findings); "
        "update excludes are remote shas; only empty or already handled pointers are skipped. Scenario engine: random histories built with real git + the real clean filter, pushed in random order/partition through the real hook to a bare repo + fake "
        "LFS server (refusing PUTs, hook bypasses, server-side ref moves); after every push that exits 0 the remote is walked with plumbing and the server store checked; the uploaded set is compared with the model's exclusion + git's own rev-list.",
   note=TB + "`git rev-list` semantics are git's (used as a spec in the upload-set comparison); the premise 'listed objects are on the server after exit 0' rests on C06/C15 and the queue's error reporting. D23 and D24 are known findings.",
   technique="Lean 4 proof (set-level refinement with explicit premises + decided counterexamples) + scenario correspondence on real repositories",
   ref="§5 C03, Appendix M"),
 "C18": dict(
   text="Lean theorems over a JSON value type, the JSON-Schema fragment of the published schemas and Go's struct encoding driven by the struct-tag tables regenerated from tq/api.go, tq/transfer.go, tq/verify.go and locking/api.go: "
        "for EVERY operation, object list, adapter list and ref name the batch request validates against docs/api/schemas/http-batch-request-schema.json (schemas regenerated from the JSON files on every run) provided ids are non-empty and sizes "
        "non-negative (and a negative size is decided invalid); it names exactly the caller's objects with their sizes and leaks no other Transfer field; lock creation and deletion requests validate for EVERY path/ref name incl. the empty one; "
        "lock verification (limit >= 0) and object verification validate against the documented shapes; only sha256 or no hash algorithm is accepted in a batch response. Correspondence: the real tq.Batch and locking client are run in process on "
        "generated inputs and every captured body is compared with the model's encoding of the same inputs; every request captured from real-binary scenarios (push incl. lock verification, git lfs push, clone/fetch/pull, lock/unlock/locks with filters, "
        "limits, --verify, paginating server) is validated by the repo's own schema files (gojsonschema) AND by the model's validator (they must agree), headers, action use (method, URL, supplied header) and objects-asked are judged; "
        "unsupported hash_algo values and single-field corruptions of batch/lock responses are injected.",
   note=TB + "JSON text is compared after canonicalisation (member order kept, strings hex-encoded): Go's string escaping is not modelled. The request shapes of lock verification and object verification are transcribed by hand from docs/api/locking.md and basic-transfers.md (no schema file is published). The GET /locks query is judged by the harness oracle only. ssh (pure SSH protocol) requests are out of scope. D10, D32, D33, D34 fixed in /repo.",
   technique="Lean 4 proof (schema validation of the model's struct encoder by simp over regenerated schemas and tag tables, list induction for the object array) + differential correspondence vs tq.Batch / locking client + schema validation of every captured request",
   ref="§5 C18"),
 "C04": dict(
   text="Lean theorems over the executable model of singleCheckout.Run + SmudgeToFile with the real pointer decoder model (C07) plugged in: for EVERY byte string in the working tree, recorded pointer and store, pull/checkout modify a file only if "
        "its content decodes to a pointer with the recorded oid (run_never_clobbers); non-pointers, files >= 1024 bytes, emptied files, other pointers, unreadable files and index-deleted paths are untouched; the canonical pointer file and a missing "
        "file become the object's bytes when it is local, stay/become the canonical pointer when not; what is written hashes to the recorded oid for an intact store; Filter.Allows is characterised for every pattern list/matcher/default (allows_spec); "
        "pointersToFetch is complete and minimal, and fetch from an intact store with hash-valid arrivals (C02) leaves every non-empty pointer with a hash-valid object. Correspondence: Filter.Allows in process over table-driven Pattern stubs; scenarios with "
        "the real binary (history on a bare remote + fake server, clone at branch/tag with skip-smudge, objects pre-populated locally / in a reference store, include/exclude by config or -I/-X, 14 kinds of local working-file states, then fetch / fetch --all / "
        "pull / checkout [path] / clone with smudge / git checkout with smudge): every path judged by a direct oracle and every pull/checkout outcome compared with the model's run.",
   note=TB + "The wildmatch library is outside the model (the matcher is a parameter of allows_spec; the scenarios use patterns with a hand-written meaning). Symlinked working files, the clonefile/copy-on-write path and `checkout --to/--ours/--theirs` are not generated. Interpretation I1: a same-oid pointer in another spelling counts as the recorded pointer.",
   technique="Lean 4 proof (case analysis of the checkout decision over the C07 decoder model; filter and fetch set lemmas) + differential correspondence in process (Allows) and through real-binary scenarios (run)",
   ref="§5 C04"),
 "C05": dict(
   text="Lean theorems: (set logic of prune, for ALL flag combinations, local/retained/reachable/verified sets) nothing a retention task named is ever deleted, only local objects are deleted, --dry-run deletes nothing, with --verify-remote a deleted object was verified on the remote or "
        "(without --verify-unreachable) is unreachable, one reachable unverified candidate halts prune before any deletion; window boundaries inclusive and zero days = off; (git-log parser) for ANY number of file sections with arbitrary other lines and interleavings of +/-/context lines the scanner "
        "returns exactly the decoding of each section's wanted side, in order, and a section spelling a valid pointer yields that pointer under its file name. Correspondence: scenarios with the real binary and real git over dated histories (merges incl. evil resolutions, tags, detached HEAD), partial pushes, "
        "stashes, a second worktree, staged/re-edited/removed files x attribute spellings x diff.noprefix/mnemonicprefix x retention settings x fetchexclude x flags (incl. --verify-remote with objects lost on the server): the must-survive set is computed from plumbing only and compared with what prune deleted; "
        "prune's own trace (RETAIN/VERIFIED) + harness-computed local/reachable sets are fed to the model's prune and the deleted set / halt compared; real `git log` outputs of every scenario (incl. noprefix, mnemonicprefix, -U1, --cc) go through the real parser (hook) and the model's.",
   note=TB + "What git prints for `log -p`, `diff-index`, `worktree list`, `for-each-ref` is git's (2.39.5); the retention tasks themselves (which refs/commits are scanned) are tied by the scenario oracle, not modelled in Lean; C-quoted file names are outside the parser model; 'unpushed' = objects introduced by a commit reachable from a local branch, tag or HEAD and not from the prune remote's refs (the manual's reading, DESIGN I7); date windows are exercised by dating commits (no faketime), boundaries kept 6 h away in the oracle. D11, D25, D28, D29 fixed in /repo.",
   technique="Lean 4 proof (set-level case analysis of prune; induction over log sections for the parser state machine) + scenario correspondence with a plumbing-only oracle + trace-fed differential check of the set logic + parser differential on real git output",
   ref="§5 C05"),
 "C13": dict(
   text="Lean theorems over the set-level model of fsckCommand/doFsckObjects/doFsckPointers/fsckPointer for ALL reference lists, tracked-file lists and flag combinations: with both checks fsck succeeds exactly when every referenced object is fine (intact, or absent with size 0) and every tracked "
        "file is a canonical pointer; no flags = both checks; --objects / --pointers alone characterised; the objects named are exactly the missing and corrupt ones (no intact one is ever named); the pointers named are exactly the non-canonical and non-pointer files; only corrupt objects are moved, "
        "every corrupt referenced one is moved by a repairing run, nothing is moved under --dry-run or --pointers. Scenarios with the real binary: plumbing-built histories with every tracked path as canonical / non-canonical pointer / raw content / empty pointer, a staged pointer, five damage kinds on local objects, "
        "revisions none / commit / A..B, flags, --dry-run, fetchexclude; expected reports from plumbing + `git check-attr`, a snapshot of .git/lfs for moves and untouched objects; the set-level outcome (exit, named objects, named pointers, moved) is compared with the model.",
   note=TB + "Which commits/blobs a revision argument selects is judged by the scenario oracle (plumbing), not modelled in Lean; the attribute reading of fsck --pointers is modelled per path (AttrFilter, equal to Git's last-match rule since D21 was repaired) and exercised with root-level and nested .gitattributes files; pattern matching itself is wildmatch's; lfs.fetchexclude excuses objects only, tracked paths holding raw content are reported regardless (the property's literal reading, which the code follows). git's clean filter may add objects while fsck runs diff-index (racy entries): additions are tolerated, removals and modifications are not.",
   technique="Lean 4 proof (list-level characterisation of the fsck outcome by case analysis) + scenario correspondence with a plumbing/check-attr oracle and .git/lfs snapshots",
   ref="§5 C13"),
 "C12": dict(
   text="Lean theorems over the model of githistory.Rewriter (commits in topological order, flat trees, blob function, (path, blob)-keyed entry cache, commit cache): for ANY cache state reachable from earlier commits and ANY tree the memoised rewrite equals the entry-wise image under the blob function "
        "(rewriteTree_spec, cache invariant preserved), path and mode of every entry are the original's also on a cache hit recorded under another mode, unselected entries and symlinks are untouched, content is preserved under `resolve` for every content-preserving blob function (import: C01), "
        "every rewritten commit keeps its header and gets the images of its parents (original id across a partial-migration boundary), the number of commits is preserved, export o import is the identity on entries for inverse blob functions; a blob function that depends on the commit (--fixup) is shown NOT memoisable by a decided counterexample (D12). "
        "Scenarios with the real binary over histories with merges, tags, symlinks, executables, mode-only changes, renames, nested .gitattributes, pre-tracked and empty files x selections (--include/--exclude, --above, --everything, --no-rewrite): graph shape, headers, per-path mode, content after resolving pointers, representation changed exactly on selected convertible paths, "
        "refs and annotated tags at the images, export after import blob for blob; the rewritten trees are compared with the model.",
   note=TB + "Sub-tree caching is abstracted to its leaves (sound for blob functions pure in (path, blob)); gitobj's object codec and rev-list ordering are trusted; --fixup and --include-ref/--exclude-ref are not generated by the scenario campaign (D12 is carried by the Lean counterexample only); the working tree after migrate is not compared (documented: repopulate with git lfs checkout). D35 (tag message loses its final newline) is a known finding.",
   technique="Lean 4 proof (memoisation invariant by induction over trees and histories) + scenario correspondence on real repositories (plumbing comparison of old and new histories) + differential check of the rewritten trees against the model",
   ref="§5 C12"),
 "C16": dict(
   text="Lean theorems over the model of the lock client against a server table (lock, unlock by path / by id with --force and the modified-file guard, verification, the other user's lock and unlock): (c) without --force, unlocking a file with uncommitted changes changes neither table nor cache, by path and by id, for every server answer; "
        "nobody else's lock is released without --force; (b) every lock the server holds for the user is cached after ANY operation and ANY server answer (step_ownCached, for tables with unique ids), the cache lists only own server locks as long as no verification ran (step_cacheOwn), a holder's file is writable after every flag fix and, on verification-free histories, only a holder's; "
        "the D13 counterexample (a verification caches the other user's lock and makes his file writable) is decided; (a) with verification enabled a push touching a path locked by another user is rejected, paths locked by the pusher or by nobody never block, nothing blocks when verification is off. "
        "Scenarios with the real binary against the fake lock server (two users, ok/403/404/501/500 answers, paginated lists, locksverify true/false/unset incl. the 404-switches-it-off rule, setlockablereadonly on/off, names with blanks, a lockable non-LFS file): after every step the server table and `git lfs locks --local --json` are compared with the model, "
        "push exits are judged against table and `git log --name-only`, guarded unlocks are provoked (lock, edit, unlock by path/id), and a final full-scan checkout hook is followed by a write-bit check of every lockable file.",
   note=TB + "The pre-push hook's verification runs in a lock client whose cache is never saved (observed; modelled as no cache effect). `git status`, `git log --name-only` and the hooks' triggering are git's. Known findings: D13 (verification caches other users' locks; pinned by TestRefreshCache) and D27 (verification sees blob names of rev-list, not the paths commits touch). Fixed in /repo: D14, D15, D36. Force-unlock of the client's own locks by the other user is not generated (the client cannot know until it lists).",
   technique="Lean 4 proof (step invariants of the lock bookkeeping, decided counterexample for D13, gate characterisation) + per-step scenario correspondence against a fake lock server + direct oracle on table, cache listing, write bits and push exits",
   ref="§5 C16"),
}
PENDING_REASON = "check not built yet in this session (build in progress, see DESIGN.md §10); not claimed until its theorems and correspondence run"

# additions made after the second round of seeded changes (appended to the level text)
MORE = {
 "C08": " Content far larger than the pipes (250 KB - 1.1 MB raw files and look-alikes) goes through the real filter-process spoken to in Git's order (write everything, then read), with and without the delay capability.",
 "C16": " Pushes are biased towards paths the other user has locked (incl. non-LFS lockable blobs around the 1 KiB cutoff); one lock / unlock command may name several paths of which some are refused. Unlock (by path and by id) is also run from the file's own directory (found and now guards D51); a commit-hook campaign covers the first commit of a repository and a merge concluded with `git commit` (D52); pushes may give two paths the same new content (one blob, two names: D27 family). Unlock requests may be refused by the server (one shot); the file list of the commit hook is a model (PostCommit.changed) compared with the write bits after root, ordinary and hand-concluded merge commits.",
 "C14": " A directed family checks out many delayed files with lfs.transfer.batchsize 1-3 (several batches finish while Git keeps asking). Object kind `stale`: a file of the wrong size sits at the object's path in local storage (found and now guards D48).",
 "C12": " `--fixup` is judged against Git's effective filter attribute (overriding later lines, nested .gitattributes); a branch and a tag may share a short name. Fixup histories may change their attribute files from one commit to the next (D59, known finding); symbolic links may be among the paths named to --no-rewrite (D60). Fixup histories may adopt LFS midway (later trees need no change); migrate import may be limited to references (--include-ref / --exclude-ref, positional refs with ^exclusions): commits outside the scope must stay the same objects.",
 "C05": " The recent-refs / recent-commits windows are modelled per ref (Pr.retainedRecent; recent_commit_window_is_per_ref, recent_retained_only_from_windows) and compared with prune's own retention trace; families: retention windows (everything pushed, several branches left behind), prune remote different from the default remote (second remote with its own LFS store). The prune remote may be a local repository (file:// URL, standalone agent) for --verify-remote (D61).",
 "C04": " Smudging into a named file (`git lfs checkout --to` during a conflicted merge, over {no file, same bytes, same length, other version, shorter, longer, pointer}) is compared with Co.smudgeToFile (tofile_independent_of_what_is_there); excluded or skipped paths must remain the committed pointer also when the object is already local or in a reference store (real `git checkout`, with and without GIT_LFS_SKIP_SMUDGE). Whole directories may be missing from the work tree.",
 "C01": " The round trip is also run through configured pointer-extension pairs of three kinds (size-preserving, shrinking, growing).",
 "C02": " Beyond the basic adapter: models of the custom/standalone adapter and of the pure-SSH adapter (success => final hashes to oid, failure => final unchanged, a padded agent file is refused) tied in process to a scripted transfer agent and a scripted git-lfs-transfer server; a small-step model of ANY number of concurrent downloading processes (private temp files, shared .part and final path: the final path is unchanged or valid in every reachable state) with real concurrent git-lfs processes and a polled final path as its runtime counterpart. No theorem assumes the pre-existing final file to be intact: success_replaces_corrupt_final covers a wrong-content file of any length already sitting at the final path, and the campaign plants such files.",
 "C03": " The pre-push hook's input parser is modelled (PrePush.lean: every created/updated ref line yields its update wherever it stands; deletions are skipped and take nothing away) and tied to commands.prePushRefs through a hidden verif-only command on generated hook inputs; pushes that delete and update refs at once are generated. Remotes are http (fake server that rejects a PUT body not hashing to its oid) or file:// (standalone transfer agent); local objects are damaged (deleted, truncated, extended, bit-flipped) before the push; D37 fixed in /repo. With lfs.allowincompletepush set, a second, server-side fault hits another object of the same push; pushes are split into several batches (lfs.transfer.batchsize). Scenario servers may offer a lapsed first upload action per object; how the hook ends is a decision model (PushReport.ok: push_succeeds_iff, allowance_does_not_excuse_other_errors) compared with the exit of pushes with planted faults.",
 "C06": " TQErr: every errored object is covered by an error the queue reports (errored_objects_are_reported); the model's `reported` flag is compared with Errors() on every run incl. a directed mixed-batch family. Producers may pause between adds (objects added after the queue gave up); a campaign with the real queue, the real custom adapter and an agent whose first start fails (D62); storage 401/403 answers and `authenticated` batch answers with the real basic adapter (D63).",
 "C09": " Reference-store scenarios (hard link and copy, failed link) are part of the enumeration. A custom transfer agent that delivers wrong content of the right size is one of the crash scenarios. Scenario `refetch`: objects already present are downloaded again.",
 "C10": " The credential source `cache` is covered: a model of git-lfs's in-process credentialCacher (every answer carries the key it is asked about, over all op sequences) tied in process to the real cacher, and sessions of several requests on one client with that cache in front of the helper. Location forms: absolute, path-only, network-path (//authority/...) and malformed. Storage requests are built and sent by the adapters' own code (hook c06276e) with the action's header name in four spellings.",
 "C11": " The consumer side is modelled too: the pattern with which tq.configureCustomAdapters recognises `lfs.customtransfer.<name>.path` keys is regenerated and proved anchored, and no key the allow-list lets through is accepted by it (documented_never_names_an_adapter); a campaign with a hostile repository AND a hostile batch server (which selects whatever adapter the client advertises) found and now guards the repaired defect D38. The flags with which the two .lfsconfig readers mark their sources are regenerated from git/config.go and proved all-true; the end-to-end locations are worktree / index only / HEAD only / HEAD+index / bare repository. End to end, the effective values the consumers see (`git lfs env`: fetchinclude, fetchexclude, skipdownloaderrors, url) are compared with the documented precedence for keys set in .lfsconfig (worktree/index/HEAD) and in Git's local/global configuration at once. The lookup consumers use (GitFetcher.Get, hook ca4c635) is compared with Cfg.get on every case, with empty values and keys that Git's own source sets again (git_config_empty_value_wins).",
 "C13": " Anchored (`/dir`) and unanchored exclude patterns with a nested directory of the same name. Staged new versions of tracked paths (one path, two contents) are part of the scenarios. The same pointer blob may sit at two paths, one of them excluded (D49, known finding); after a repairing run the moved objects are damaged a second time and fsck runs again (lfs/bad/<oid> exists), judged directly and against the same model. One path is tracked by no attribute line; the scan behind the object check is a model of its own (FsScan: first name per blob, then the exclusion — no-false-alarm theorem, partial completeness theorem, D49 witness) compared with which damaged objects fsck names.",
 "C15": " Expiry spelled as expires_at / expires_in (past, inside the 5 s margin, far future, in-wins-over-at), Retry-After as seconds / HTTP-date / garbage, 1-8 workers. Per-object deferrals with different Retry-After values and a directed several-objects-waiting family: the first request naming a deferred object must not start before its ready time. With the real adapter: actions that run out while objects wait for the only worker (the scripted server reports a request that arrives after the advertised expiry).",
 "C17": " Approve and reject exchanges (credentials as an older Git hands them back, CR / NUL included) and URLs with control bytes in the path under credential.usehttppath are part of the sequences (found and now guards the repaired defect D39). A context machine (ctxRun) covers SEQUENCES of URLs on one credential-helper context: protection follows the current URL's setting (protection_follows_current_url), compared end to end through a fake `git` that records the stdin it is given.",
 "C18": " The fake server spells offered action header names in four ways and may offer Authorization/Content-Type; each offered header must arrive exactly once with the offered value. Servers may change the transfer adapter between the batch answers of one push (tus / omitted / basic): every storage request is judged against the transfer its own answer named, and the answer history goes to the model ApiReq.adapterAfter (adapter_follows_latest_answer, omitted_transfer_means_basic). The unlock URL is modelled (UrlEsc: net/url PathEscape with round-trip, one-segment and injectivity theorems, the per-byte facts decided over all 256 values) and compared with the request the real client sends for lock ids containing URL delimiters; such ids are also among the response corruptions (D53).",
 "C19": " Sequences of 2-5 track/untrack/--lockable/--not-lockable operations over related patterns (rooted/unrooted, globs, directories) are judged after every step against hand-quoted reference patterns by `git check-attr`. Pre-existing files may define lfs macros in nested directories (fact attrFileMacroConditions + obligation), mention the argument without tracking it (lockable alone, -filter, filter=other: D54), track `sub/<pattern>` from above (D58), track through a top-level macro (D55, repaired), or hold a line longer than 64 KiB (D56); a lockable pattern is tracked again without a lock flag (D50). Sequences are also compared line by line with the model TrkSeq (track/untrack as operations on the lines of .gitattributes: idempotence, lockable kept without a flag, other patterns untouched).",
 "C20": " core.hooksPath (relative and absolute, decoy hooks left in .git/hooks), commands run from a sub-directory, --skip-repo and --skip-smudge are generated. Hook states include symlinks to user scripts; both configuration scopes are planted and the untargeted scope must never be written. The implicit hook installation of other commands is covered: track / untrack / fsck inside the sequences, and a `git lfs clone` campaign with user hooks planted through init.templateDir or a global core.hooksPath, judged directly and against Hk.installAll; the regenerated list of installHooks call sites is proved to force only in `git lfs update`.",
}
for k, v in MORE.items():
    CLAIMED[k]["text"] += v
# seventh round
MORE7 = {
 "C01": " Something may already sit at the object's path before a clean (stale file, wrong-size pointers: D68).",
 "C02": " Concurrent downloads are also STAGED: the first storage GET is held half way while a process started meanwhile comes and goes, its answer ignoring Range and cut after a few bytes.",
 "C03": " `git lfs push <remote> <ref>...` is run directly with several nested and forking refs named in one command (campaign c03LfsPushRefs and an operation of the scenario): every object of a named ref that no remote-tracking ref covers must be on the server.",
 "C04": " The include/exclude LISTS are a model too (PathList.cleanPaths; theorem list_elements_are_the_patterns_spelt: blanks around the commas and around the list change nothing), tied to tools.CleanPaths (corr.C04.paths); the scenarios write their lists with blanks around the commas.",
 "C05": " The line classifier of the `git log -p` scanner is a regenerated fact (Gen.logDataPrefixes); theorem every_pointer_version_line_is_data ties it to the decoder's version URLs (D69); unpushed histories contain pointers written with the earlier version URLs.",
 "C06": " The real-adapter campaign answers batch requests with 401 (once, twice, always) while a static credential helper keeps answering (D73).",
 "C08": " Extra lines after a pointer may themselves be well-formed pointer lines (ext-*, size, oid, version); the oracle's notion of pointer text includes the spec's key order, independently of the decoder. Cleaning a pointer must leave nothing in lfs/tmp (D72) and store nothing also with a pointer extension configured (D20, now repaired).",
 "C11": " Sub-sections named like, beginning or ending with the last component of a documented key; empty configuration files (D67b, theorem empty_file_contributes_nothing) and a .lfsconfig Git cannot parse beside settings of the user's own (D74) in the generated and the end-to-end cases.",
 "C12": " Campaign c12Export: standalone `migrate export` of files committed as pointers in five spellings (canonical, CRLF, earlier version URL, blank first line, second final newline).",
 "C13": " Which paths fsck expects to hold a pointer is a model (AttrFilter: fsck's include/exclude reading of the attribute lines vs Git's last-match rule — expected_pointer_paths_are_tracked, tracked_paths_are_expected, lockable_only_line_is_irrelevant), tied per raw file to what fsck names and to `git check-attr` (corr.C13.attr); attribute variants nested (D70), lockable-only line (D71), override and re-enable (D21, repaired: the full statement expected_pointer_paths_are_exactly_the_tracked_ones).",
 "C15": " Batch-level 401 scripts with a static credential helper (D73); the Wait deadline of a queue case covers the waits the case may rightly take.",
 "C16": " Campaign c16UnlockUncached: the user's own lock outside this clone's lock cache (taken elsewhere, or the cache lost), file edited / staged / clean, unlock by path or id, with and without --force.",
 "C18": " The storage may refuse the first request for an object although it carries the offered Authorization while a credential helper answers: every resubmission must still carry the offered header exactly once.",
 "C19": " Files in which a pattern is tracked from the start and a later line overrides it for a sub-tree (a changed line must stay where it is); rooted and unrooted spellings of one name side by side (D77: TrkSeq.about, theorem seq_unlock_takes_effect_on_the_exact_line).",
 "C20": " After a successful uninstall no hook that git-lfs generated is left when none was the user's own (theorem uninstall_removes_every_own_hook, directed family with absent hook files: D76); custom filter.lfs.* values under uninstall (D75, known).",
}
for k, v in MORE7.items():
    CLAIMED[k]["text"] += v
# eighth round
MORE8 = {
 "C01": " Merge programs that work in place on their inputs, the three input objects checked after the merge, merges with an input object that cannot be had (D84).",
 "C02": " The real-adapter campaign also runs under C02 with batch answers whose objects carry members that are the client's business (path, name, missing); what DoTransfer does to the file system is a regenerated fact.",
 "C03": " Locks of another user on the scenario servers with lock verification not configured; the exclusion list of uploadForRefUpdates is a regenerated fact (gen_upload_exclusion).",
 "C04": " After a pull the object of every selected path is in local storage whatever the working-tree file holds; pull / checkout also run from a sub-directory with a staged deletion (D82); a server may answer one download without an action (D83).",
 "C09": " The rename into place is a regenerated fact (one rename, nothing moved aside).",
 "C10": " One request object submitted up to three times (campaign c10Resend) over redirect-then-500 graphs.",
 "C12": " Nested annotated tags with the inner ref kept or deleted (D78; model TagRw with corr.C12.tagchain); directories named like an exclude pattern.",
 "C13": " An attributes file of more than 1 KiB (variant padded); the defaults of the two checks are a regenerated fact.",
 "C14": " Campaign c14SkipEquivalence: skip-smudge / fetchexclude / fetchinclude with the objects local, one-shot smudge vs the filter with and without can-delay.",
 "C15": " Model AuthLoop (an API request is submitted at most defaultMaxAuthAttempts + 1 times; exact tie on single-round cases); campaign c15RetryAfter on the parsing of Retry-After (D86).",
 "C16": " Merges (--squash, --no-ff, --ff-only) of a branch that changed a lockable file, with a write-bit check (post-merge hook); a lockable path below a nested attributes file (D80).",
 "C18": " A front end that answers every POST and PUT with 307: the request arriving at the new location is the one judged; every kind of response corruption in turn, empty lock ids (D81).",
 "C19": " Sequences run inside a sub-directory (rooted vs unrooted spellings, D79); hidden names whose second character is escaped (D85); rooted and unrooted lines side by side (D77).",
 "C20": " Attribute.Install's calls are a regenerated fact (it only normalises and sets keys).",
}
for k, v in MORE8.items():
    CLAIMED[k]["text"] += v
ALL = ["C%02d" % i for i in range(1, 21)]
m = {
 "version": 1,
 "setup_cmd": "./setup.sh",
 "hooks": {
  "guard": "verif",
  "enable": "go build -tags verif (done by ./check for both /repo's git-lfs binary and the harness that links /repo through a replace directive)",
  "baseline_off_cmd": "cd /repo && GIT_CONFIG_GLOBAL=/dev/null GIT_CONFIG_NOSYSTEM=1 GOFLAGS=-mod=mod GOTOOLCHAIN=local go test -vet=off -count=1 -timeout 25m ./...",
  "source_commits": json.load(open(os.path.join(V, "hooks.json")))["source_commits"] if os.path.exists(os.path.join(V, "hooks.json")) else [],
  "add_only": True,
 },
 "engines": [
  {"name": "lean-proofs", "path": "lean/", "serves_properties": sorted(CLAIMED), "kind_free_text": "Lean 4 models (core-only, executable) + theorems; Props/Cxx.lean holds the property theorems, audited with #print axioms"},
  {"name": "fact-extractor", "path": "extract/", "serves_properties": sorted(CLAIMED), "kind_free_text": "go/ast extractor regenerating lean/LfsModel/Gen.lean from /repo on every run; fails closed per declaration"},
  {"name": "correspondence-harness", "path": "harness/", "serves_properties": sorted(CLAIMED), "kind_free_text": "Go, links /repo via replace, -tags verif; seeded generators; real code vs compiled Lean oracle over a line protocol; direct property oracle supplies replays"},
 ],
 "checks": [],
 "not_applicable": [],
 "notes": "All checks: ./check <id> quick|thorough. A broken proof obligation or correspondence triggers a widened search; VIOLATION lines end in no-failing-input-found when the search finds no concrete failing input. known_findings.json lists recorded/fixed defects.",
}
for pid in ALL:
    if pid in CLAIMED:
        c = CLAIMED[pid]
        m["checks"].append({
          "property_id": pid, "quick_cmd": "./check %s quick" % pid, "thorough_cmd": "./check %s thorough" % pid,
          "evidence_file": "evidence/%s.json" % pid, "replay_cmd_template": "./check %s --replay {path}" % pid,
          "engine": "lean-proofs+correspondence-harness",
          "level_claimed": {"category": "proof", "text": c["text"], "design_ref": "DESIGN.md " + c["ref"]},
          "level_note": c["note"], "technique": c["technique"]})
    else:
        m["not_applicable"].append({"property_id": pid, "reason": PENDING_REASON})
json.dump(m, open(os.path.join(V, "MANIFEST.json"), "w"), indent=1)
print("claimed:", sorted(CLAIMED))
